#!/usr/bin/env python3
"""Write seeded/<id>/meta.json from the files try_seeded.sh left there.

usage: write_meta.py <id> <clause> <needs> <mechanism> <first_result>"""
import os
import sys
import json

sid, clause, needs, mech, first = sys.argv[1:6]
d = os.path.join(os.path.dirname(os.path.dirname(os.path.abspath(__file__))), 'seeded', sid)


def tail(name, n):
    p = os.path.join(d, name)
    if not os.path.exists(p):
        return []
    return [l.rstrip('\n')[:300] for l in open(p, errors='replace').read().strip().split('\n')[-n:]]


chk = []
p = os.path.join(d, 'check_with.txt')
if os.path.exists(p):
    lines = open(p, errors='replace').read().split('\n')
    k = 0
    for i, l in enumerate(lines):
        if l.startswith('VIOLATION') and k < 3:
            chk.append(l[:300])
            if i + 1 < len(lines):
                chk.append(lines[i + 1][:300])
            k += 1
    chk += [l[:300] for l in lines if l.startswith(('check rc=', 'HARNESS ERROR', 'OK property'))]
meta = dict(id=sid, breaks='C14', clause=clause, needs=needs, mechanism=mech, first_result=first,
            files=sorted(f for f in os.listdir(d) if f != 'meta.json'),
            ran=dict(demo_with_change=tail('demo_with.txt', 3), demo_without_change=tail('demo_without.txt', 2),
                     pytest_with_change=tail('pytest_with.txt', 3),
                     check_cmd='scratch copy of /repo/mininec + patch.diff; VERIF_REPO=<copy> VERIF_WORLDS=1500 '
                               'VERIF_SKIP_SELFTEST=1 run_check.py C14 --tier quick',
                     check_result=chk))
json.dump(meta, open(os.path.join(d, 'meta.json'), 'w'), indent=1)
print('wrote', sid)
