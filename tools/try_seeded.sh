#!/bin/bash
# usage: try_seeded.sh <worktree> <id> [worlds]
# 1. confirm in the worktree: demo FAILs with the change, PASSes without, test suite unchanged
# 2. copy patch + demo to /verif/seeded/<id>/
# 3. apply to a scratch copy of /repo/mininec, run the quick check with VERIF_REPO pointing at it, remove the copy
set -u
WT=$1; ID=$2; WORLDS=${3:-1500}
D=/verif/seeded/$ID
mkdir -p $D
cd $WT || exit 2
git diff -- mininec > $D/patch.diff
cp demo_c14.py $D/demo_c14.py
[ -f NOTES.md ] && cp NOTES.md $D/NOTES.md
echo "== demo with change"; PYTHONPATH=$WT timeout 600 /venv/bin/python demo_c14.py > $D/demo_with.txt 2>&1; echo "rc=$?" | tee -a $D/demo_with.txt; tail -3 $D/demo_with.txt
git stash -q
echo "== demo without change"; PYTHONPATH=$WT timeout 600 /venv/bin/python demo_c14.py > $D/demo_without.txt 2>&1; echo "rc=$?" | tee -a $D/demo_without.txt; tail -3 $D/demo_without.txt
git stash pop -q
echo "== pytest with change"; PYTHONPATH=$WT timeout 1500 /venv/bin/python -m pytest -q -p no:cacheprovider --timeout=900 test 2>&1 | tail -3 | tee $D/pytest_with.txt
cd /verif
echo "== quick check against a scratch copy of /repo with the change applied (VERIF_REPO)"
SCR=$(mktemp -d)
mkdir -p $SCR/repo && cp -r /repo/mininec $SCR/repo/ && rm -rf $SCR/repo/mininec/__pycache__
patch -p1 -s -d $SCR/repo -i $D/patch.diff || { echo "apply failed"; rm -rf $SCR; exit 2; }
VERIF_REPO=$SCR/repo VERIF_WORLDS=$WORLDS VERIF_SKIP_SELFTEST=1 VERIF_REPLAY_DIR=$SCR/replays VERIF_EVIDENCE_DIR=$SCR/ev VERIF_MAX_REPORTS=3 timeout 1500 /venv/bin/python ${VERIF_CHECKER:-/verif/run_check.py} C14 --tier quick > $D/check_with.txt 2>&1
echo "check rc=$?" | tee -a $D/check_with.txt
rm -rf $SCR
grep -A2 "^VIOLATION" $D/check_with.txt | cut -c1-300 | head -12
tail -2 $D/check_with.txt | cut -c1-200
