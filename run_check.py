#!/venv/bin/python
"""Deterministic simulation with fault injection for pymininec, property C14.

  run_check.py --setup
  run_check.py C14 --tier quick|thorough
  run_check.py C14 --replay <file>
  run_check.py selftest [--planted]
  run_check.py digests <seed> <n>          (internal: determinism self-test)

Exit 0: no unlisted violation.  Exit 1 + `VIOLATION property=C14 replay=<path>`.
Exit 2: harness error (never reported as a pass, never as a violation).
"""
import os
import sys

# --- the simulator's own interpreter must be deterministic: pin its hash
# seed and the BLAS thread count before anything else is imported
_WANT = os.environ.get('VERIF_SIM_HASHSEED', '0')
if os.environ.get('PYTHONHASHSEED') != _WANT or os.environ.get('OPENBLAS_NUM_THREADS') != '1':
    os.environ['PYTHONHASHSEED'] = _WANT
    for _k in ('OPENBLAS_NUM_THREADS', 'OMP_NUM_THREADS', 'MKL_NUM_THREADS'):
        os.environ[_k] = '1'
    os.environ['PYTHONDONTWRITEBYTECODE'] = '1'
    os.execv(sys.executable, [sys.executable] + sys.argv)

import json
import time
import copy
import random
import shutil
import hashlib
import argparse
import tempfile
import traceback
import subprocess
import multiprocessing
from concurrent.futures import ProcessPoolExecutor, as_completed

VERIF = os.path.dirname(os.path.abspath(__file__))
REPO = os.environ.get('VERIF_REPO', '/repo')
sys.path[:0] = [REPO, VERIF]
sys.dont_write_bytecode = True

PROP = 'C14'


def _import_target():
    import warnings
    warnings.filterwarnings('ignore')       # numpy RuntimeWarnings go to stderr, which is never judged
    import mininec.mininec as mm
    if not os.path.abspath(mm.__file__).startswith(os.path.abspath(REPO) + os.sep):
        raise SystemExit('harness error: mininec imported from %s, not from %s' % (mm.__file__, REPO))
    return mm


# ------------------------------------------------------------------- jobs

def job_world(args):
    """Runs in a pool worker (a pristine template: it has imported mininec
    and never executes model code itself)."""
    from sim import gen, driver
    kind, payload = args
    try:
        trace = False
        if kind == 'seed':
            run_seed, tier = payload
            plan = gen.gen_plan(run_seed, tier=tier)
        elif kind == 'traced':
            run_seed, tier = payload
            plan = gen.gen_plan(run_seed, tier=tier)
            trace = True
        else:
            plan = payload
        if trace:
            os.environ['VERIF_TRACE'] = '1'
        try:
            r = driver.run_world(plan)
        finally:
            os.environ.pop('VERIF_TRACE', None)
        r['ok'] = True
        if r['violations']:
            r['plan'] = plan
        r['sample'] = dict(run_seed=plan.get('run_seed'), config=plan['config'],
                           tasks=[dict(kind=t['kind'], template=t.get('template'), env=t.get('env'),
                                       argv=t.get('argv'), pool=t.get('pool'), ops=t['ops'][:12])
                                  for t in plan['tasks']], schedule=plan['schedule'][:40])
        return r
    except Exception:
        return dict(ok=False, error=traceback.format_exc(), payload=repr(payload)[:500])


def job_exec(args):
    """Exec-level runs of one command line: fork-level simulated run, N fresh
    interpreters with different PYTHONHASHSEED / environment, optionally an
    unpatched real run.  All must agree byte for byte."""
    from sim import gen, driver, execlevel as X, seams as S
    spec = args
    try:
        S.reset_faults()
        t0 = time.time()
        rng = random.Random(spec['seed'])
        if 'argv' in spec:
            argv, npulses = spec['argv'], spec.get('npulses', 10)
            sides = spec['sides']
            hashseeds = spec['hashseeds']
            sib_argv = spec.get('sib_argv')
        else:
            argv, m = X.gen_cmdline(rng, env=spec.get('env'), kinds=spec.get('kinds'), want=spec.get('want', ()),
                                    sweep=spec.get('sweep'))
            npulses = m.min_pulses() + 2 * len(m.geo)
            try:
                sib_argv = X.sibling_cmdline(rng, argv, m)
            except Exception:
                sib_argv = None
            sides = [gen.env_side(rng, True, 'hist'), gen.env_side(rng, True, 'orac'),
                     gen.env_side(rng, True, 'hist')]
            sides[2]['hash']['mode'] = 'perm'
            hashseeds = [rng.randrange(1, 4294967295) for _ in sides]
        plan0 = dict(orac=gen.env_side(rng, False, 'orac'))
        ref = driver.in_child(driver._oracle_cli, (plan0, argv, npulses))
        runs = [('fork', ref)]
        scratch = spec['scratch']
        # interpreter flags are part of how a process is started: -O strips
        # asserts, -OO also docstrings, -X utf8 changes the default encoding
        flagsets = [(), ('-O',), ('-OO', '-X', 'utf8')]
        # the fresh interpreters run one after the other on one simulated
        # machine (one private working / temporary / home directory): the
        # second finds what the first left, and between the second and the
        # third the user runs a sibling model there
        import tempfile as _tf
        import shutil as _sh
        mroot = _tf.mkdtemp(prefix='machine', dir=scratch)
        for i, (side, hs) in enumerate(zip(sides, hashseeds)):
            fl = flagsets[i % 3]
            if i == 2 and sib_argv:
                try:
                    X.exec_sim(REPO, sib_argv, side, hs, rng, scratch, npulses, pyflags=fl, root=mroot)
                    S.fired('sibling_run_between')
                except Exception:
                    pass
            runs.append(('exec hashseed=%d hash=%s flags=%s' % (hs, side['hash']['mode'], ' '.join(fl) or '-'),
                         X.exec_sim(REPO, argv, side, hs, rng, scratch, npulses,
                                    disk={'opt.txt': 'STALE\n' * 200} if i == 0 else None, pyflags=fl, root=mroot)))
        _sh.rmtree(mroot, ignore_errors=True)
        if spec.get('real'):
            # what the three standard streams are connected to is part of a
            # process's circumstances: all pipes; stdout on a terminal;
            # stdout redirected but stderr (and stdin) on a terminal; all ttys
            variants = [('real', None, False),
                        ('real tty', dict(out_tty=True), True),
                        ('real stderr-tty', dict(out_tty=False, err_tty=True, in_tty=True), False),
                        ('real all-tty', dict(out_tty=True, err_tty=True, in_tty=True), False),
                        ('real stdin-data', None, False)]
            # ... one after the other in one directory that starts empty:
            # the second run finds the files of the first, and before the
            # third a sibling model is run there
            wd = _tf.mkdtemp(prefix='used', dir=scratch)
            for vi, (name, streams, opt) in enumerate(variants):
                if vi == 2 and sib_argv:
                    X.exec_real(REPO, sib_argv, rng.randrange(1, 4294967295), rng, scratch, workdir=wd)
                    S.fired('sibling_run_between')
                from sim.world import STDIN_TEXT
                r = X.exec_real(REPO, argv, rng.randrange(1, 4294967295), rng, scratch,
                                streams=streams, optimize=opt, workdir=wd,
                                stdin_data=STDIN_TEXT if name == 'real stdin-data' else None)
                if ref['outcome'] == 'rc:23' and r['outcome'] == 'ok':
                    r['outcome'] = 'rc:23'      # __main__ ignores main()'s return value
                runs.append((name, r))
            _sh.rmtree(wd, ignore_errors=True)
        viol = []
        for name, r in runs[1:]:
            if ref['outcome'] == 'raise:AssertionError' and ('-O' in name or name == 'real tty'):
                # a failed precondition assert: what an optimised interpreter
                # does instead is not promised by anyone
                continue
            if r['outcome'] != ref['outcome']:
                viol.append(dict(clause='H5', observable='outcome', detail='%s: %s vs fork %s' % (name, r['outcome'], ref['outcome'])))
                continue
            if r['stdout'] != ref['stdout']:
                from sim.compare import first_diff
                viol.append(dict(clause='H5', observable='stdout', detail='%s: %s' % (name, first_diff(r['stdout'], ref['stdout']))))
            for k in sorted(set(r['files']) | set(ref['files'])):
                if r['files'].get(k) != ref['files'].get(k):
                    from sim.compare import first_diff
                    nm = 'file.option' if k.startswith('--output-cmdline') else 'file.basic'
                    viol.append(dict(clause='H5', observable=nm,
                                     detail='%s: %s' % (name, first_diff(r['files'].get(k) or '', ref['files'].get(k) or ''))))
        h = hashlib.sha256(json.dumps([[n, r['outcome'], r['stdout'], r['files']] for n, r in runs],
                                      sort_keys=True).encode()).hexdigest()
        return dict(ok=True, violations=viol, runs=len(runs) - 1, real=5 if spec.get('real') else 0,
                    faults=dict(S.FAULTS), digest=h, outcome=ref['outcome'],
                    plan=dict(kind='exec', seed=spec['seed'], argv=argv, npulses=npulses, sides=sides,
                              hashseeds=hashseeds, real=bool(spec.get('real')), sib_argv=sib_argv),
                    wall=time.time() - t0)
    except Exception:
        return dict(ok=False, error=traceback.format_exc(), payload=repr(spec)[:500])


def _world_log(plan):
    from sim import driver
    r = driver.in_child(driver.run_world, (plan, True), timeout=600)
    return dict(log=r['log'], oracle_log=r['oracle_log'], digest=r['digest'])


def job_hash(spec):
    """One world executed in two interpreters that differ in PYTHONHASHSEED
    (this pool worker, and a fresh interpreter): string-hash order is the one
    source of run-to-run variation that cannot be changed inside a running
    interpreter.  Every observation of the history (reports, option files,
    BASIC files, numbers) and every oracle evaluation must have the same
    digest in both."""
    from sim import seams as S
    try:
        S.reset_faults()
        t0 = time.time()
        world, hs = spec['world'], spec['hashseed']
        a = _world_log(world)
        fd, path = tempfile.mkstemp(prefix='hashworld', suffix='.json', dir=spec.get('scratch'))
        try:
            with os.fdopen(fd, 'w') as f:
                json.dump(world, f)
            env = dict(os.environ)
            env['VERIF_SIM_HASHSEED'] = str(hs)
            env['PYTHONHASHSEED'] = str(hs)
            p = subprocess.run([sys.executable, os.path.abspath(__file__), 'worldlog', path],
                               capture_output=True, text=True, env=env, timeout=900)
        finally:
            os.unlink(path)
        if p.returncode != 0:
            return dict(ok=False, error='worldlog subprocess failed: ' + p.stderr[-1500:], payload=repr(spec)[:300])
        b = json.loads(p.stdout.strip().split('\n')[-1])
        S.fired('hashseed_exec')
        viol = []
        for i, (x, y) in enumerate(zip(a['log'], b['log'])):
            if x != y:
                op = x.split(' ')[2].split(':')[0] if len(x.split(' ')) > 2 else '?'
                viol.append(dict(clause='H5', observable='hashseed.' + op,
                                 detail='history step %d differs between interpreters with PYTHONHASHSEED=%s and %s: %s / %s'
                                        % (i, os.environ.get('PYTHONHASHSEED'), hs, x, y)))
                break
        if not viol and a['oracle_log'] != b['oracle_log']:
            d = sorted(set(a['oracle_log']) ^ set(b['oracle_log']))
            viol.append(dict(clause='H5', observable='hashseed.fresh',
                             detail='fresh evaluation differs between interpreters with other PYTHONHASHSEED: %s' % d[:2]))
        return dict(ok=True, violations=viol, faults=dict(S.FAULTS), steps=len(a['log']),
                    plan=dict(kind='hashseed', world=world, hashseed=hs), wall=time.time() - t0)
    except Exception:
        return dict(ok=False, error=traceback.format_exc(), payload=repr(spec)[:300])


# -------------------------------------------------------------- aggregation

class Agg:
    def __init__(self):
        self.worlds = 0
        self.evaluations = 0
        self.nontrivial = set()
        self.trivial = 0
        self.faults = {}
        self.probes = {}
        self.states = set()
        self.transitions = set()
        self.schedules = set()
        self.sim_time = 0.0
        self.sections = 0
        self.ulp = 0
        self.oracle_evals = 0
        self.steps = 0
        self.by_config = {'plain': dict(worlds=0, violations=0), 'perturbed': dict(worlds=0, violations=0)}
        self.violations = []
        self.errors = []
        self.samples = []
        self.exec_runs = 0
        self.real_runs = 0
        self.hash_worlds = 0
        self.hash_steps = 0
        self.digests = {}
        self.lines = set()
        self.traced_worlds = 0

    def add_world(self, r):
        if not r.get('ok'):
            self.errors.append(r.get('error', '?'))
            return
        self.worlds += 1
        self.evaluations += r['evaluations']
        self.nontrivial |= r['nontrivial']
        self.trivial += r['trivial']
        for k, v in r['faults'].items():
            self.faults[k] = self.faults.get(k, 0) + v
        for k, v in r['probes'].items():
            self.probes[k] = self.probes.get(k, 0) + v
        self.states |= r['states']
        self.transitions |= r['transitions']
        self.schedules.add(r['schedule_sig'])
        self.sim_time += r['sim_time']
        self.sections += r['sections']
        self.ulp += r['ulp_diffs']
        self.oracle_evals += r['oracle_evals']
        self.steps += r['steps']
        c = self.by_config[r['config']]
        c['worlds'] += 1
        if r['violations']:
            c['violations'] += 1
            self.violations.append(dict(kind='world', plan=r['plan'], violations=r['violations']))
        if len(self.samples) < 3 and r['evaluations'] > 3:
            self.samples.append(r['sample'])
        self.digests[r['run_seed']] = r['digest']
        if r.get('lines'):
            self.lines |= r['lines']
            self.traced_worlds += 1

    def add_hash(self, r):
        if not r.get('ok'):
            self.errors.append(r.get('error', '?'))
            return
        self.hash_worlds += 1
        self.hash_steps += r['steps']
        self.evaluations += r['steps']
        for k, v in r['faults'].items():
            self.faults[k] = self.faults.get(k, 0) + v
        if r['violations']:
            self.violations.append(dict(kind='hashseed', plan=r['plan'], violations=r['violations']))

    def add_exec(self, r):
        if not r.get('ok'):
            self.errors.append(r.get('error', '?'))
            return
        self.exec_runs += r['runs'] - r['real']
        self.real_runs += r['real']
        self.evaluations += r['runs']
        for k, v in r['faults'].items():
            self.faults[k] = self.faults.get(k, 0) + v
        if r['outcome'] == 'ok':
            self.nontrivial.add(('exec', r['digest'][:12]))
        if r['violations']:
            self.violations.append(dict(kind='exec', plan=r['plan'], violations=r['violations']))


# ----------------------------------------------------------------- replay

def load_known():
    p = os.environ.get('VERIF_KNOWN_FILE') or os.path.join(VERIF, 'known_findings.json')
    try:
        return json.load(open(p))
    except Exception:
        return {'fixed': [], 'known': []}


def plan_text(plan):
    return json.dumps(plan, sort_keys=True)


def match_known(known, clause, observable, plan):
    """A `known` entry names one specific failing signature:
      clauses      optional list of clause labels (H1..H7)
      observables  optional list of observable-class prefixes (e.g. 'num.far', 'sweep.step')
      requires     substrings that must all occur in the minimal plan (model options, op names)
    Anything not matched by an entry is still reported as a violation."""
    from sim.shrink import obs_class
    txt = plan_text(plan)
    oc = obs_class(observable)
    for k in known.get('known', []):
        cl = k.get('clauses') or ([k['clause']] if k.get('clause') else [])
        if cl and clause not in cl:
            continue
        ob = k.get('observables') or ([k['observable']] if k.get('observable') else [])
        if ob and not any(oc.startswith(obs_class(o)) for o in ob):
            continue
        if all(s in txt for s in k.get('requires', [])):
            return k
    return None


def run_plan_fresh(plan):
    """Execute a plan in a child of this (pristine) process."""
    from sim import driver
    if plan.get('kind') == 'exec':
        scratch = tempfile.mkdtemp(prefix='verif-c14-')
        try:
            spec = dict(plan)
            spec['scratch'] = scratch
            r = job_exec(spec)
        finally:
            shutil.rmtree(scratch, ignore_errors=True)
        if not r.get('ok'):
            raise driver.HarnessError(r.get('error'))
        return r
    if plan.get('kind') == 'hashseed':
        r = job_hash(dict(world=plan['world'], hashseed=plan['hashseed']))
        if not r.get('ok'):
            raise driver.HarnessError(r.get('error'))
        r['digest'] = hashlib.sha256(json.dumps(r['violations'], sort_keys=True).encode()).hexdigest()
        return r
    return driver.in_child(driver.run_world, (plan,), timeout=600)


def minimise(item, budget_c=300, budget_s=90):
    from sim import shrink
    plan = item['plan']
    v0 = item['violations'][0]
    target = shrink.obs_class(v0['observable'])

    def fails(p):
        r = run_plan_fresh(p)
        return any(shrink.obs_class(v['observable']) == target for v in r['violations'])

    if plan.get('kind') == 'hashseed':
        w = shrink.shrink(plan['world'], target, lambda p: fails(dict(plan, world=p)), max_cand=60, max_s=budget_s)
        return dict(plan, world=w), target
    if plan.get('kind') == 'exec':
        # only the command line can be reduced
        cur = copy.deepcopy(plan)
        n = 0
        k = 0
        t0 = time.time()
        while n < 40 and time.time() - t0 < budget_s:
            units = shrink._argv_units(cur['argv'])
            if k >= len(units):
                break
            c = copy.deepcopy(cur)
            c['argv'] = [x for i, x in enumerate(cur['argv']) if i not in units[k]]
            n += 1
            try:
                bad = fails(c)
            except Exception:
                bad = False
            if bad:
                cur = c
            else:
                k += 1
        cur['shrink'] = dict(candidates=n, wall_s=round(time.time() - t0, 1))
        return cur, target
    return shrink.shrink(plan, target, fails, budget_c, budget_s), target


def write_replay(plan, target, result):
    from sim import shrink
    vs = [v for v in result['violations'] if shrink.obs_class(v['observable']) == target]
    v = vs[0]
    body = dict(property=PROP, clause=v['clause'], observable=v['observable'], detail=v['detail'],
                target=target, all_violations=[dict(clause=x['clause'], observable=x['observable'],
                                                    detail=x['detail'], op=x.get('op')) for x in result['violations'][:10]],
                run_seed=plan.get('run_seed', plan.get('seed')), digest=result.get('digest'), plan=plan)
    d = hashlib.sha256(plan_text(plan).encode()).hexdigest()[:12]
    rdir = os.environ.get('VERIF_REPLAY_DIR') or os.path.join(VERIF, 'replays')
    os.makedirs(rdir, exist_ok=True)
    path = os.path.join(rdir, '%s-%s-%s.json' % (PROP, v['clause'], d))
    with open(path, 'w') as f:
        json.dump(body, f, indent=1, sort_keys=True)
    return path, v


def report_violations(agg, max_reports=int(os.environ.get('VERIF_MAX_REPORTS', 4))):
    """Minimise, write replay files, verify that each replays, print lines.
    Returns (number of unlisted violations, number known, harness errors)."""
    from sim import shrink
    known = load_known()
    nviol = nknown = 0
    seen = set()
    nmin = 0
    for item in agg.violations:
        if nviol >= max_reports:
            nviol += 1
            continue
        if nmin >= 10 or os.environ.get('VERIF_NO_MINIMISE'):
            # enough minimised examples: the rest is matched against the
            # known findings on the unminimised plan, and reported with it
            v0 = item['violations'][0]
            k = match_known(known, v0['clause'], v0['observable'], item['plan'])
            if k is not None:
                nknown += 1
                continue
            try:
                tgt = shrink.obs_class(v0['observable'])
                for _ in range(3):
                    # (a violation that stems from uninitialised memory or a
                    # race need not show on every execution)
                    r1 = run_plan_fresh(item['plan'])
                    if any(shrink.obs_class(x['observable']) == tgt for x in r1['violations']):
                        break
                path, v = write_replay(item['plan'], tgt, r1)
            except Exception:
                agg.errors.append('replay of unminimised plan failed:\n' + traceback.format_exc())
                continue
            nviol += 1
            print('VIOLATION property=%s replay=%s' % (PROP, path))
            print('  clause=%s observable=%s (not minimised)' % (v['clause'], v['observable']))
            continue
        nmin += 1
        try:
            plan, target = minimise(item)
            r1 = run_plan_fresh(plan)
            r2 = run_plan_fresh(plan)
            v1 = [v for v in r1['violations'] if shrink.obs_class(v['observable']) == target]
            v2 = [v for v in r2['violations'] if shrink.obs_class(v['observable']) == target]
            if not v1 or not v2:
                agg.errors.append('violation did not replay: %s / %s / digests %s %s; original: %r'
                                  % (bool(v1), bool(v2), r1.get('digest'), r2.get('digest'), item['violations'][0]))
                continue
            path, v = write_replay(plan, target, r1)
            if r1.get('digest') != r2.get('digest'):
                # the same plan, the same seams, two different executions:
                # the program under test itself is nondeterministic (a real
                # thread race, an uncontrolled source) - which is a run-to-run
                # variation in its own right.  The violation reproduced in
                # both replays; the values differ between them.
                print('NOTE property=%s the violation below reproduces on every replay but with different values: '
                      'the program is nondeterministic under an identical schedule' % PROP)
        except Exception:
            agg.errors.append('minimise/replay failed:\n' + traceback.format_exc())
            continue
        k = match_known(known, v['clause'], v['observable'], plan)
        if k is not None:
            key = k.get('id', k.get('what'))
            if key not in seen:
                print('KNOWN-FINDING: property=%s %s' % (PROP, k.get('what', key)))
                seen.add(key)
            nknown += 1
            continue
        nviol += 1
        print('VIOLATION property=%s replay=%s' % (PROP, path))
        print('  clause=%s observable=%s' % (v['clause'], v['observable']))
        print('  %s' % v['detail'][:400])
        sys.stdout.flush()
    return nviol, nknown


# ------------------------------------------------------------------- tiers

def make_pool(workers):
    ctx = multiprocessing.get_context('fork')
    return ProcessPoolExecutor(max_workers=workers, mp_context=ctx)


def run_tier(tier, seed, workers, budget_s, n_worlds, n_exec, n_real, n_traced=0):
    from sim import gen
    _import_target()
    t0 = time.time()
    agg = Agg()
    scratch = tempfile.mkdtemp(prefix='verif-c14-')
    try:
        with make_pool(workers) as ex:
            futs = {}
            # exec-level first: they are the slowest single jobs
            rng = random.Random(seed * 7919 + 13)
            # exec-level floor: features whose processing could depend on
            # string-hash order or on the process environment
            floor_exec = [dict(env=e, kinds=[k]) for k in ('impedance', 'skin_c') for e in ('free', 'ideal')]
            floor_exec += [dict(env='free', want=['transform_key_tie']), dict(env='ideal', want=['transform_key_tie']),
                           dict(env='free', want=['transform_key_tie', 'rotate', 'translate']),
                           dict(want=['geo_all_ge2_not_all']), dict(want=['explicit_tags']),
                           dict(want=['multi_media']), dict(want=['taper']), dict(want=['taper'], env='ideal'),
                           dict(kinds=['impedance', 'rlc', 'trap', 'laplace']),
                           dict(kinds=['skin_r', 'insulation']),
                           # distributed loads on single objects of a connected structure
                           dict(want=['skin_per_tag'], kinds=['skin_c'], env='free'),
                           dict(want=['insulation_per_tag'], kinds=['insulation'], env='free'),
                           dict(want=['skin_per_tag'], kinds=['skin_c'], env='ideal'),
                           dict(want=['insulation_per_tag'], kinds=['insulation'], env='ideal')]
            for i in range(n_exec):
                spec = dict(seed=seed * 1000003 + 500000 + i, scratch=scratch, real=(i < n_real))
                if i < n_real:
                    spec['sweep'] = (i % 2 == 1)     # every second real case is a sweep
                if i < len(floor_exec):
                    spec.update(floor_exec[i])
                futs[ex.submit(job_exec, spec)] = 'exec'
            fl = gen.floor_plans(seed, tier)
            for p in fl:
                futs[ex.submit(job_world, ('plan', p))] = 'world'
            # the short floor worlds (every load kind x environment x API /
            # CLI) once more in an interpreter with another string-hash seed
            short = [p for p in fl if len(p['tasks']) == 1 and sum(len(t['ops']) for t in p['tasks']) <= 40][:48]
            for j, p in enumerate(short if tier != 'quick' else short[::2]):
                futs[ex.submit(job_hash, dict(world=p, hashseed=rng.randrange(1, 4294967295), scratch=scratch))] = 'hash'
            for j in range(n_traced):
                futs[ex.submit(job_world, ('traced', (seed * 1000003 + 800000 + j, tier)))] = 'world'
            i = 0
            submitted = 0
            pending_cap = workers * 3

            def refill():
                nonlocal i, submitted
                while submitted < n_worlds and sum(1 for f in futs if not f.done()) < pending_cap:
                    if budget_s and time.time() - t0 > budget_s:
                        break
                    futs[ex.submit(job_world, ('seed', (seed * 1000003 + i, tier)))] = 'world'
                    i += 1
                    submitted += 1

            refill()
            done_count = 0
            while futs:
                done = [f for f in futs if f.done()]
                if not done:
                    time.sleep(0.02)
                    continue
                for f in done:
                    kind = futs.pop(f)
                    r = f.result()
                    if kind == 'exec':
                        agg.add_exec(r)
                    elif kind == 'hash':
                        agg.add_hash(r)
                    else:
                        agg.add_world(r)
                    done_count += 1
                if len(agg.violations) >= 3 and os.environ.get('VERIF_STOP_AT_FIRST'):
                    # sensitivity self-test: the question is only whether
                    # anything is found; do not explore the rest
                    ex.shutdown(wait=True, cancel_futures=True)
                    agg.stopped_early = True
                    break
                refill()
    finally:
        shutil.rmtree(scratch, ignore_errors=True)
    agg.wall_search = time.time() - t0
    return agg


def selftest_determinism(seed, n, workers):
    """n run seeds twice each in the pool; once more in a fresh interpreter
    under another PYTHONHASHSEED with 1 worker; all digests must agree."""
    _import_target()
    seeds = [seed * 1000003 + 700000 + i for i in range(n)]
    res = {}
    with make_pool(workers) as ex:
        futs = [(s, rep, ex.submit(job_world, ('seed', (s, 'quick')))) for rep in (0, 1) for s in seeds]
        for s, rep, f in futs:
            r = f.result()
            if not r.get('ok'):
                return dict(ok=False, error=r.get('error'))
            res.setdefault(s, []).append(r['digest'])
    env = dict(os.environ)
    env['VERIF_SIM_HASHSEED'] = '4242'
    env['PYTHONHASHSEED'] = '4242'
    p = subprocess.run([sys.executable, os.path.abspath(__file__), 'digests', str(seeds[0]), str(n)],
                       capture_output=True, text=True, env=env, timeout=1200)
    if p.returncode != 0:
        return dict(ok=False, error='digest subprocess failed: ' + p.stderr[-1500:])
    other = json.loads(p.stdout.strip().split('\n')[-1])
    mism = []
    for s in seeds:
        d = res[s] + [other.get(str(s))]
        if len(set(d)) != 1:
            mism.append((s, d))
    return dict(ok=not mism, seeds=n, runs=3 * n, mismatches=mism[:5],
                variants=['pool run A', 'pool run B', 'fresh interpreter PYTHONHASHSEED=4242 workers=1'])


def cmd_digests(first, n):
    _import_target()
    out = {}
    for s in range(first, first + n):
        r = job_world(('seed', (s, 'quick')))
        if not r.get('ok'):
            print(r.get('error'), file=sys.stderr)
            return 2
        out[str(s)] = r['digest']
    print(json.dumps(out))
    return 0


# ---------------------------------------------------------------- evidence

EXPECTED_PROBES = ['srm_flip', 'skin_asymptote_flip', 'revisit', 'near_then_far', 'far_then_near',
                   'obs_before_first_compute', 'same_argv_3x_in_process', 'history_contains_rc23',
                   'history_contains_raise', 'stale_file_longer_than_new', 'geo_all_ge2_not_all',
                   'multi_media_far_field', 'sweep_negative_increment', 'round_frequencies',
                   'int_typed_frequency', 'mid_model', 'model:fault_floor', 'model:round_floor',
                   'model:tolerance_floor', 'model:regime_floor', 'model:twin_floor', 'model:option_floor', 'model:order_floor', 'model:minimal_model', 'model:mixed_floor', 'model:lifetime_floor', 'model:thread_floor', 'model:fine_sweep_floor', 'project_frequency', 'model:near_miss_junction',
                   'model:near_miss_ground_contact']


def executable_lines(path):
    src = open(path).read()
    lines = set()
    todo = [compile(src, path, 'exec')]
    while todo:
        co = todo.pop()
        for _, _, ln in co.co_lines():
            if ln:
                lines.add(ln)
        for c in co.co_consts:
            if hasattr(c, 'co_lines'):
                todo.append(c)
    return lines


def lines_report(agg):
    if not agg.lines:
        return dict(traced_worlds=0, note='line tracing (sys.settrace) runs in the thorough tier only')
    rep = dict(traced_worlds=agg.traced_worlds)
    for mod in ('mininec.py', 'pulse.py', 'segment.py', 'taper.py', 'util.py'):
        ex = executable_lines(os.path.join(REPO, 'mininec', mod))
        got = set(l for f, l in agg.lines if f == mod) & ex
        rep[mod] = dict(reached=len(got), executable=len(ex))
    return rep


def write_evidence(agg, tier, seed, wall, nviol, nknown, selftest):
    hours = max(agg.wall_search, 1e-9) / 3600.0
    cov = dict(
        evaluations=agg.evaluations,
        distinct_nontrivial=len(agg.nontrivial),
        rule=("Seeded random search (one integer VERIF_SEED -> run seeds -> complete plans) over worlds of 1..3 "
              "tasks (live Mininec objects driven through SET_F/COMPUTE/FAR/NEAR/observations; sequences of real "
              "main() invocations incl. sweeps, failing invocations and restarts) under a seeded scheduler, with "
              "simulated clock, hash assignment, disk, allocator junk/poison differing between history and oracle. "
              "evaluations = observations compared with a fresh-process evaluation of the same configuration point "
              "(plus exec-level runs compared byte for byte). A case is non-trivial if at least one history-creating "
              "fault preceded the observation AND the fresh evaluation succeeded; distinct = distinct (geometry "
              "template, environment class, set of load kinds, abstract state before the observation, observation kind) "
              "tuples for API observations, distinct (template, environment, command line) for repeated RUNs, "
              "distinct (template, environment, command line, step k>0) for sweeps, distinct result digests for "
              "exec-level runs."),
        samples=agg.samples[:3] or [dict(note='no world sampled')],
        worlds=agg.worlds,
        steps_executed=agg.steps,
        sections_compared=agg.sections,
        oracle_evaluations=agg.oracle_evals,
        trivial_agreements=agg.trivial,
        seeds_per_hour=int(agg.worlds / hours),
        sim_time_s=round(agg.sim_time, 1),
        faults_fired=dict(sorted(agg.faults.items())),
        probes={k: agg.probes.get(k, 0) for k in sorted(set(EXPECTED_PROBES) | set(agg.probes))},
        probes_at_zero=[k for k in EXPECTED_PROBES if not agg.probes.get(k)],
        distinct_abstract_states=len(agg.states),
        distinct_transitions=len(agg.transitions),
        distinct_schedules=len(agg.schedules),
        exec_level_runs=agg.exec_runs,
        hashseed_worlds=dict(worlds=agg.hash_worlds, steps_compared=agg.hash_steps,
                             note='whole floor worlds run once more in a fresh interpreter with another '
                                  'PYTHONHASHSEED; every observation digest must agree'),
        unpatched_real_runs=agg.real_runs,
        ulp_diffs=agg.ulp,
        plain_vs_perturbed=agg.by_config,
        components=dict(
            real=['mininec/mininec.py (all of it incl. main and argparse)', 'mininec/pulse.py', 'mininec/segment.py',
                  'mininec/taper.py', 'mininec/util.py', 'numpy', 'scipy'],
            stub=['wall clock (time module object, datetime class)', 'object hash assignment (__hash__ of Geobj, _Load, '
                  'Medium, Pulse, Segment, Excitation)', 'disk (fault-injecting module-level open, written through to a real private working / temporary / home directory per simulated machine)', 'stdout/stderr (captured)',
                  'process boundary (fork from a pristine template; real exec only in exec-level runs)',
                  'BLAS thread count (pinned to 1)']),
        selftest=selftest,
        lines_reached=lines_report(agg),
        harness_errors=len(agg.errors),
        known_findings_matched=nknown,
    )
    ev = dict(property_id=PROP, tier=tier, seed=seed, level='exploration', coverage=cov,
              assumptions=[
                  'the reference is the same code run once from pristine state: a defect that is identical in both executions is invisible (that is C01..C13, not C14)',
                  'operations are atomic: pymininec has no thread, await, callback or signal handler, so interleaving is explored between API calls / main() invocations only',
                  'BLAS runs single-threaded; multi-threaded reduction order is not explored',
                  'string-hash order is reached only by exec-level runs (fresh interpreter, seeded PYTHONHASHSEED)',
                  'stderr is recorded but never judged',
              ],
              wall_s=round(wall, 2), violations=nviol)
    edir = os.environ.get('VERIF_EVIDENCE_DIR') or os.path.join(VERIF, 'evidence')
    os.makedirs(edir, exist_ok=True)
    for name in (PROP + '.json', '%s.%s.json' % (PROP, tier)):
        with open(os.path.join(edir, name), 'w') as f:
            json.dump(ev, f, indent=1, sort_keys=True, default=str)
    return ev


# --------------------------------------------------------------------- main

def cmd_check(tier, seed, workers):
    t0 = time.time()
    if tier == 'quick':
        n_worlds = int(os.environ.get('VERIF_WORLDS', 1500))
        budget = float(os.environ.get('VERIF_BUDGET_S', 0)) or None
        n_exec, n_real, n_det, n_traced = 24, 6, 12, 0
    else:
        n_worlds = int(os.environ.get('VERIF_WORLDS', 10 ** 9))
        budget = float(os.environ.get('VERIF_BUDGET_S', 1200))
        n_exec, n_real, n_det, n_traced = 140, 24, 64, 48
    print('C14 tier=%s VERIF_SEED=%d workers=%d repo=%s' % (tier, seed, workers, REPO))
    sys.stdout.flush()
    if os.environ.get('VERIF_SKIP_SELFTEST'):
        st = dict(ok=True, skipped=True)
    else:
        st = selftest_determinism(seed, n_det, workers)
    if not st.get('ok'):
        print('HARNESS ERROR: determinism self-test failed: %r' % (st,))
        return 2
    agg = run_tier(tier, seed, workers, budget, n_worlds, n_exec, n_real, n_traced)
    nviol, nknown = report_violations(agg)
    wall = time.time() - t0
    ev = write_evidence(agg, tier, seed, wall, nviol, nknown, dict(determinism=st))
    c = ev['coverage']
    print('worlds=%d evaluations=%d distinct_nontrivial=%d exec_level=%d real=%d states=%d transitions=%d '
          'schedules=%d seeds/h=%d wall=%.1fs' % (agg.worlds, agg.evaluations, len(agg.nontrivial), agg.exec_runs,
                                                 agg.real_runs, len(agg.states), len(agg.transitions),
                                                 len(agg.schedules), c['seeds_per_hour'], wall))
    print('faults fired: %s' % json.dumps(c['faults_fired'], sort_keys=True))
    if c['probes_at_zero']:
        print('WARNING: reach probes at zero: %s' % ', '.join(c['probes_at_zero']))
    if agg.errors:
        print('HARNESS ERROR (%d):' % len(agg.errors))
        for e in agg.errors[:3]:
            print(e[:3000])
        return 2 if not nviol else 1
    if nviol:
        return 1
    print('OK property=%s held on everything explored' % PROP)
    return 0


def cmd_replay(path):
    _import_target()
    from sim import shrink
    body = json.load(open(path))
    r = run_plan_fresh(body['plan'])
    target = body.get('target') or shrink.obs_class(body['observable'])
    vs = [v for v in r['violations'] if shrink.obs_class(v['observable']) == target]
    print('replay %s: digest %s (recorded %s)' % (path, r.get('digest'), body.get('digest')))
    for v in r['violations'][:10]:
        print('  %s %s: %s' % (v['clause'], v['observable'], v['detail'][:300]))
    if vs:
        print('VIOLATION property=%s replay=%s' % (PROP, path))
        return 1
    print('not reproduced: property held on this plan')
    return 0


def cmd_setup():
    mm = _import_target()
    import numpy
    import scipy
    from sim import seams, gen, world, driver, compare, shrink, execlevel  # noqa: F401
    print('setup ok: python %s numpy %s scipy %s mininec from %s' % (
        sys.version.split()[0], numpy.__version__, scipy.__version__, os.path.dirname(mm.__file__)))
    return 0


def main():
    ap = argparse.ArgumentParser()
    ap.add_argument('what', nargs='?')
    ap.add_argument('rest', nargs='*')
    ap.add_argument('--setup', action='store_true')
    ap.add_argument('--tier', default=os.environ.get('VERIF_TIER', 'quick'))
    ap.add_argument('--replay')
    ap.add_argument('--planted', action='store_true')
    ap.add_argument('--workers', type=int, default=int(os.environ.get('VERIF_WORKERS', os.cpu_count() or 4)))
    a = ap.parse_args()
    seed = int(os.environ.get('VERIF_SEED', '1'))
    if a.setup:
        return cmd_setup()
    if a.what == 'worldlog':
        _import_target()
        print(json.dumps(_world_log(json.load(open(a.rest[0])))))
        return 0
    if a.what == 'digests':
        return cmd_digests(int(a.rest[0]), int(a.rest[1]))
    if a.what == 'selftest':
        from sim import selftest
        return selftest.main(seed, a.workers, a.planted, a.rest)
    if a.what != PROP:
        print('usage: run_check.py C14 [--tier quick|thorough] [--replay file] | --setup | selftest [--planted]')
        return 2
    if a.replay:
        return cmd_replay(a.replay)
    return cmd_check(a.tier, seed, a.workers)


if __name__ == '__main__':
    try:
        rc = main()
    except SystemExit:
        raise
    except BaseException:
        traceback.print_exc()
        print('HARNESS ERROR: uncaught exception in run_check')
        rc = 2
    sys.exit(rc)
