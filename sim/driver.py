"""Process structure and verdicts for one world.

  template (this process: has imported mininec, has executed no model code)
    |- fork: history epoch 0 .. RESTART          (plan['hist'] environment)
    |- fork: history epoch 1 ..                  (only the simulated disk survives)
    |- fork: oracle evaluation of configuration point 1   (plan['orac'] environment)
    |- fork: oracle evaluation ...

The oracle children are forked from the template, never from a history
child, so they cannot inherit history.
"""
import os
import sys
import time
import pickle
import hashlib
import traceback
import signal

from . import world as W
from . import compare as C
from . import seams as S


class HarnessError(Exception):
    pass


CHILD_TIMEOUT = 300
LINES = set()            # (module file name, line) reached under VERIF_TRACE


def _tracer_for(prefix, sink):
    def local(frame, event, arg):
        if event == 'line':
            sink.add((frame.f_code.co_filename, frame.f_lineno))
        return local

    def glob(frame, event, arg):
        fn = frame.f_code.co_filename
        if fn.startswith(prefix):
            sink.add((fn, frame.f_lineno))
            return local
        return None
    return glob


def in_child(fn, args, timeout=CHILD_TIMEOUT):
    r, w = os.pipe()
    sys.stdout.flush()
    sys.stderr.flush()
    pid = os.fork()
    if pid == 0:
        code = 0
        try:
            os.close(r)
            # fork-safe watchdog (faulthandler's watchdog thread deadlocks
            # when re-armed in a forked grandchild)
            # the budget is CPU time of this child (a machine that is busy
            # with other work must not turn a slow world into a harness
            # error); a generous wall-clock alarm still ends a child that
            # blocks without using the CPU
            signal.signal(signal.SIGALRM, signal.SIG_DFL)
            signal.signal(signal.SIGPROF, signal.SIG_DFL)
            signal.setitimer(signal.ITIMER_PROF, float(timeout))
            signal.alarm(int(timeout) * 8)
            sink = None
            if os.environ.get('VERIF_TRACE'):
                import mininec
                sink = set()
                sys.settrace(_tracer_for(os.path.dirname(os.path.abspath(mininec.__file__)), sink))
            try:
                res = ('ok', fn(*args))
            except BaseException:
                res = ('err', traceback.format_exc())
            if sink is not None:
                sys.settrace(None)
                res = res + (sink | LINES,)
            with os.fdopen(w, 'wb') as f:
                pickle.dump(res, f, protocol=pickle.HIGHEST_PROTOCOL)
        except BaseException:
            code = 3
        finally:
            os._exit(code)
    os.close(w)
    with os.fdopen(r, 'rb') as f:
        data = f.read()
    _, status = os.waitpid(pid, 0)
    if not data:
        raise HarnessError('child died without result (status %s) in %s' % (status, fn.__name__))
    got = pickle.loads(data)
    kind, val = got[0], got[1]
    if len(got) > 2:
        LINES.update(got[2])
    if kind == 'err':
        raise HarnessError('child raised in %s:\n%s' % (fn.__name__, val))
    return val


# ------------------------------------------------------------ oracle children

def _fresh_root(root):
    """An empty private directory tree for one oracle evaluation."""
    import tempfile
    return tempfile.mkdtemp(prefix='o', dir=root) if root else None


def _oracle_api(plan, ti, point, wanted, root=None):
    W.setup_side(plan['orac'], {}, _fresh_root(root))
    pv = W.poison_value(plan['orac'])
    t = plan['tasks'][ti]
    if pv is not None:
        grids = [fa[0][2] * fa[1][2] for fa in t.get('fars', [])]
        S.poison(S.poison_sizes(t.get('npulses', 10), grids), pv)
    return W.oracle_api(t, point, wanted)


def _oracle_cli(plan, argv, npulses, root=None):
    se = W.setup_side(plan['orac'], {}, _fresh_root(root))
    pv = W.poison_value(plan['orac'])
    if pv is not None:
        S.poison(S.poison_sizes(npulses, [40, 370]), pv)
    return W.run_main(argv, se.disk)


def _hist(plan, start, disk, pos, apif, root=None):
    return W.run_history(plan, start, disk, pos, apif, os.path.join(root, 'h') if root else None)


def scratch_root():
    """Where the private directories of the simulated machines live."""
    import tempfile
    base = os.environ.get('VERIF_SCRATCH') or tempfile.gettempdir()
    return tempfile.mkdtemp(prefix='verif-world-', dir=base)


# ------------------------------------------------------------------- clauses

def api_clause(prior_ops, multi_task, had_other):
    """Name the clause from the history that preceded an observation.

    H2: the object was at another frequency before (constructed, set,
        computed or observed there);
    H3: more than one field request (order / repetition / other parameters);
    H4: computed twice, or a report / option list was rendered before;
    H7: nothing of the above in this task, but another task ran before;
    H5: no history at all: a fresh object in a process that only differs in
        its environment (hash assignment, clock, memory layout)."""
    f = 0
    touched = set([0])          # the object was constructed at pool[0]
    ncomp = nfield = nobs = 0
    for o in prior_ops:
        k = o[0]
        if k == 'SET_F':
            f = o[1]
            touched.add(f)
        else:
            touched.add(f)
            if k == 'COMPUTE':
                ncomp += 1
            elif k in ('FAR', 'NEAR', 'FAR_BAD', 'NEAR_BAD'):
                nfield += 1
            elif k.startswith('OBS') or k == 'REPORT_EARLY':
                nobs += 1
    if touched - {f}:
        return 'H2'
    if nfield > 1:
        return 'H3'
    if ncomp > 1 or nobs:
        return 'H4'
    if multi_task and had_other:
        return 'H7'
    return 'H5'


# --------------------------------------------------------------------- world

def run_world(plan, keep=False):
    import shutil
    root = scratch_root()
    try:
        return _run_world(plan, keep, root)
    finally:
        shutil.rmtree(root, ignore_errors=True)


def _run_world(plan, keep, root):
    t0 = time.time()
    C.reset_stats()
    LINES.clear()
    tasks = plan['tasks']
    # ---- history
    epochs = []
    start, disk, pos, apif = 0, None, None, None
    while True:
        r = in_child(_hist, (plan, start, disk, pos, apif, root))
        epochs.append(r)
        if r['stop'] is None:
            break
        start, disk, pos, apif = r['stop'], r['disk'], r['pos'], r['apif']
    obs = [o for e in epochs for o in e['obs']]
    log = [l for e in epochs for l in e['log']]
    faults = {}
    probes = {}
    states = set()
    transitions = set()
    sched = []
    sim_time = 0.0
    for e in epochs:
        for k, v in e['faults'].items():
            faults[k] = faults.get(k, 0) + v
        for k, v in e['probes'].items():
            probes[k] = probes.get(k, 0) + v
        states |= e['states']
        transitions |= e['transitions']
        sched += e['sched']
        sim_time += e['sim_time']
    for t in tasks:
        for p in t.get('probes', []):
            probes[p] = probes.get(p, 0) + 1
        for f in t.get('features', []):
            # how often each generator feature was part of an explored model
            probes['model:' + f.split(':')[0]] = probes.get('model:' + f.split(':')[0], 0) + 1
        if 'geo_all_ge2_not_all' in t.get('features', []):
            probes['geo_all_ge2_not_all'] = probes.get('geo_all_ge2_not_all', 0) + 1
        if 'multi_media' in t.get('features', []):
            probes['multi_media_far_field'] = probes.get('multi_media_far_field', 0) + 1
    if plan['config'] == 'perturbed':
        faults['hash_reseed'] = faults.get('hash_reseed', 0) + 1
    nshared = sum(1 for t in tasks if t.get('builder') == 'direct'
                  and t['direct'].get('ground') == 'shared_ideal')
    if nshared >= 2:
        probes['two_models_share_ideal_ground'] = 1

    # ---- oracle requests
    memo = {}
    oracle_log = []

    def oracle_api(ti, point, wanted):
        key = ('api', ti, tuple(point), tuple(wanted))
        if key not in memo:
            memo[key] = in_child(_oracle_api, (plan, ti, tuple(point), list(wanted), root))
            oracle_log.append('%r %s' % (key, W.digest_sections(memo[key])))
        return memo[key]

    def oracle_cli(argv, npulses):
        key = ('cli', tuple(argv))
        if key not in memo:
            memo[key] = in_child(_oracle_cli, (plan, list(argv), npulses, root))
            oracle_log.append('%r %s' % (key, W.digest_sections(memo[key])))
        return memo[key]

    violations = []
    evaluations = 0
    nontrivial = set()
    trivial = 0
    prior = {i: [] for i in range(len(tasks))}
    others_ran = {i: False for i in range(len(tasks))}
    any_ran = False

    def viol(clause, rec, observable, detail):
        violations.append(dict(clause=clause, step=rec['step'], task=rec['task'],
                               op=rec['op'], observable=observable, detail=detail))

    for rec in obs:
        ti = rec['task']
        t = tasks[ti]
        op = rec['op']
        kind = op[0]
        sec = rec['sections']
        if t['kind'] == 'api':
            for name, point in rec.get('held_changed', []):
                clause = api_clause(prior[ti], len(tasks) > 1, others_ran[ti])
                viol(clause, rec, 'held.' + name,
                     'a result object handed out earlier (at point %r) was modified in place by %s' % (point, kind))
                evaluations += 1
            if sec is not None:
                if True:
                    point = rec['point']
                    if 'dead' in sec:
                        ora = oracle_api(ti, point, [])
                        evaluations += 1
                        trivial += 1
                        if list(ora.get('dead', [])) != list(sec['dead']):
                            viol('H6', rec, 'build', 'history %r fresh %r' % (sec['dead'], ora))
                    else:
                        if kind == 'OBS_NUM' or 'exc:num' in sec:
                            wanted = [('num',)]
                        elif kind == 'OBS_REPORT' or 'exc:report' in sec:
                            wanted = [('report', tuple(rec.get('opts', [])))]
                        elif kind == 'OBS_CMDLINE' or 'exc:cmdline' in sec:
                            wanted = [('cmdline',)]
                        elif kind == 'OBS_BASIC' or 'exc:basic' in sec:
                            wanted = [('basic', op[1])]
                        elif kind == 'OBS_MISC' or 'exc:misc' in sec:
                            wanted = [('misc', op[1] if len(op) > 1 else 0)]
                        else:
                            wanted = []
                        ora = oracle_api(ti, point, wanted)
                        evaluations += 1
                        clause = api_clause(prior[ti], len(tasks) > 1, others_ran[ti])
                        ok = compare_api(sec, ora, lambda o, d: viol(clause, rec, o, d))
                        success = not any(k.startswith('exc') or k == 'dead' for k in ora)
                        if rec.get('had_history') and success:
                            lk = tuple(sorted(f for f in t.get('features', []) if f.startswith('load_')))
                            nontrivial.add((t.get('template'), t.get('env'), lk,
                                            rec.get('abstract'), kind))
                        else:
                            trivial += 1
            prior[ti].append(op)
        else:
            if kind == 'RUN' and sec is not None:
                ora = oracle_cli(op[1], t.get('npulses', 10))
                evaluations += 1
                clause = 'H5' if rec.get('fresh') else 'H6'
                if rec.get('torn'):
                    trivial += 1        # outcome of a faulted invocation is not judged
                else:
                    compare_run(sec, ora, lambda o, d: viol(clause, rec, o, d))
                    if not rec.get('fresh') and ora['outcome'] == 'ok':
                        nontrivial.add((t.get('template'), t.get('env'), 'RUN',
                                        hashlib.sha256(repr(op[1]).encode()).hexdigest()[:8]))
                    else:
                        trivial += 1
            elif kind == 'SWEEP' and sec is not None:
                base, inc, steps = op[1], op[2], op[3]
                f0, _ = W.base_f(base)
                if sec['outcome'] != 'ok':
                    ora = oracle_cli(W.sweep_argv(base, inc, steps, op[4] if len(op) > 4 else 0), t.get('npulses', 10))
                    evaluations += 1
                    trivial += 1
                    if ora['outcome'] != sec['outcome']:
                        viol('H1', rec, 'outcome', 'history %s fresh %s' % (sec['outcome'], ora['outcome']))
                elif not inc or steps <= 1:
                    # an increment of zero (or a single step) is, by the
                    # program's own definition, an ordinary single run: judge
                    # it as a run of this command line
                    ora = oracle_cli(W.sweep_argv(base, inc, steps, op[4] if len(op) > 4 else 0), t.get('npulses', 10))
                    evaluations += 1
                    trivial += 1
                    compare_run(sec, ora, lambda o, d: viol('H5' if rec.get('fresh') else 'H6', rec, o, d))
                else:
                    lead, blocks = C.cut_sweep(sec['stdout'])
                    if len(blocks) != steps:
                        viol('H1', rec, 'blocks', 'sweep printed %d blocks for %d steps' % (len(blocks), steps))
                    for k in range(min(steps, len(blocks))):
                        fk = f0 + k * inc
                        a1 = W.with_f(base, fk)
                        single = oracle_cli(a1, t.get('npulses', 10))
                        evaluations += 1
                        if single['outcome'] != 'ok':
                            viol('H1', rec, 'outcome', 'sweep step %d ok but fresh run at %r: %s' % (k, fk, single['outcome']))
                            continue
                        sl = single['stdout'].split('\n')
                        d = C.cmp_lines(C.region_freq(blocks[k]), C.region_freq(sl))
                        if d:
                            viol('H1', rec, 'sweep.freq[%d]' % k, d)
                        d = C.cmp_lines(C.region_tail(blocks[k]), C.region_tail(sl))
                        if d:
                            viol('H1', rec, 'sweep.step[%d]' % k, d)
                        if k == 0:
                            d = C.cmp_lines(C.region_lead(lead), C.region_lead(sl))
                            if d:
                                viol('H1', rec, 'sweep.lead', d)
                        two = oracle_cli(W.sweep_argv(a1, inc if fk + inc > 0 else abs(inc), 2), t.get('npulses', 10))
                        evaluations += 1
                        if two['outcome'] == 'ok':
                            l2, b2 = C.cut_sweep(two['stdout'])
                            if b2:
                                d = C.cmp_lines(C._strip(blocks[k]), C._strip(b2[0]))
                                if d:
                                    viol('H1', rec, 'sweep.block[%d]' % k, d)
                        if k > 0:
                            nontrivial.add((t.get('template'), t.get('env'), 'SWEEP', k,
                                            hashlib.sha256(repr(base).encode()).hexdigest()[:8]))
                        else:
                            trivial += 1
        if kind != 'RESTART':
            for j in others_ran:
                if j != ti:
                    others_ran[j] = True
        else:
            for j in others_ran:
                others_ran[j] = False

    h = hashlib.sha256()
    for l in log:
        h.update(l.encode())
        h.update(b'\n')
    for l in sorted(oracle_log):
        h.update(l.encode())
        h.update(b'\n')
    res = dict(run_seed=plan.get('run_seed'), config=plan['config'],
               violations=violations, evaluations=evaluations,
               nontrivial=nontrivial, trivial=trivial,
               faults=faults, probes=probes, states=states,
               transitions=transitions,
               schedule_sig=hashlib.sha256(repr(sched).encode()).hexdigest()[:16],
               digest=h.hexdigest(), sim_time=sim_time,
               oracle_evals=len(memo), sections=C.STATS['sections'],
               ulp_diffs=C.STATS['ulp_diffs'], steps=len(obs),
               epochs=len(epochs), wall=time.time() - t0)
    if LINES:
        res['lines'] = set((os.path.basename(f), l) for f, l in LINES)
    if keep:
        res['log'] = log
        res['oracle_log'] = sorted(oracle_log)
    return res


def compare_api(sec, ora, viol):
    ok = True
    if 'dead' in ora or 'exc' in ora:
        # the fresh evaluation failed: history must have failed the same way
        want = ora.get('exc') or list(ora.get('dead'))
        got = sec.get('exc') or (list(sec['dead']) if 'dead' in sec else None)
        if got != want:
            viol('outcome', 'history %r fresh %r' % (got or sorted(sec), want))
            return False
        return True
    if 'exc' in sec:
        viol('outcome', 'history raised %s, fresh evaluation succeeded' % sec['exc'])
        return False
    num_ok = True
    for name in sorted(sec):
        if name.startswith('num.'):
            if name not in ora:
                viol(name, 'missing in fresh evaluation')
                ok = num_ok = False
                continue
            d = C.cmp_array(sec[name], ora[name])
            if d:
                viol(name, d)
                ok = num_ok = False
    for name in sorted(sec):
        if name.startswith('txt.'):
            d = C.cmp_text(sec[name], ora.get(name), numeric_ok=num_ok)
            if d:
                viol(name, d)
                ok = False
        elif name.startswith('exc:'):
            if ora.get(name) != sec[name]:
                viol(name, 'history raised %s, fresh %r' % (sec[name], ora.get(name)))
                ok = False
    for name in ora:
        if name.startswith('exc:') and name not in sec:
            viol(name, 'fresh evaluation raised %s, history did not' % ora[name])
            ok = False
    return ok


def compare_run(sec, ora, viol):
    if sec['outcome'] != ora['outcome']:
        viol('outcome', 'history %s fresh %s' % (sec['outcome'], ora['outcome']))
        return
    C.STATS['sections'] += 1
    if sec['stdout'] != ora['stdout']:
        viol('stdout', C.first_diff(sec['stdout'], ora['stdout']))
    for k in sorted(set(sec['files']) | set(ora['files'])):
        C.STATS['sections'] += 1
        a, b = sec['files'].get(k), ora['files'].get(k)
        if a != b:
            name = 'file.option' if k.startswith('--output-cmdline') else 'file.basic'
            if a is None or b is None:
                viol(name, '%s: history %s fresh %s' % (k, 'missing' if a is None else 'written',
                                                       'missing' if b is None else 'written'))
            else:
                viol(name, k + ': ' + C.first_diff(a, b))
