"""Plan minimisation (delta debugging on the stored plan)."""
import copy
import time


def obs_class(name):
    return name.split('[')[0]


def _drop_task(plan, ti):
    p = copy.deepcopy(plan)
    del p['tasks'][ti]
    p['schedule'] = [(s if s < ti else s - 1) for s in p['schedule'] if s != ti]
    return p


def _drop_ops(plan, ti, idxs):
    """Remove ops idxs (set of op positions) of task ti and the matching
    schedule entries."""
    p = copy.deepcopy(plan)
    ops = p['tasks'][ti]['ops']
    p['tasks'][ti]['ops'] = [o for i, o in enumerate(ops) if i not in idxs]
    sched = []
    k = 0
    for s in p['schedule']:
        if s == ti:
            if k not in idxs:
                sched.append(s)
            k += 1
        else:
            sched.append(s)
    p['schedule'] = sched
    return p


def _argv_units(argv):
    """Indices grouped into removable units: '--x=y' alone, '-w v' pairs."""
    units = []
    i = 0
    while i < len(argv):
        a = argv[i]
        if a.startswith('-') and '=' not in a and i + 1 < len(argv) and not _is_flag(argv[i + 1]) and a != '-T':
            units.append((i, i + 1))
            i += 2
        else:
            units.append((i,))
            i += 1
    return units


def _is_flag(x):
    if not x.startswith('-'):
        return False
    try:
        float(x.split(',')[0])
        return False
    except ValueError:
        return True


PLAIN = dict(hash=dict(mode='fwd', seed=0),
             clock=dict(epoch=1.7e9, seed=1, p_fwd=0, p_back=0, p_stall=0),
             junk=[0, 0], poison=None)


def shrink(plan, target, fails, max_cand=300, max_s=90):
    """fails(plan) -> bool (same violation class persists)."""
    t0 = time.time()
    n = [0]

    def test(p):
        if n[0] >= max_cand or time.time() - t0 > max_s:
            return False
        n[0] += 1
        try:
            return fails(p)
        except Exception:
            return False

    cur = plan
    changed = True
    while changed and n[0] < max_cand and time.time() - t0 <= max_s:
        changed = False
        # 1. whole tasks
        ti = 0
        while len(cur['tasks']) > 1 and ti < len(cur['tasks']):
            c = _drop_task(cur, ti)
            if test(c):
                cur = c
                changed = True
            else:
                ti += 1
        # 2. operations, ddmin style per task
        for ti in range(len(cur['tasks'])):
            nops = len(cur['tasks'][ti]['ops'])
            chunk = max(nops // 2, 1)
            while chunk >= 1:
                i = 0
                while i < len(cur['tasks'][ti]['ops']):
                    idxs = set(range(i, min(i + chunk, len(cur['tasks'][ti]['ops']))))
                    if len(idxs) == len(cur['tasks'][ti]['ops']):
                        i += chunk
                        continue
                    c = _drop_ops(cur, ti, idxs)
                    if test(c):
                        cur = c
                        changed = True
                    else:
                        i += chunk
                chunk //= 2
        # 3. environment perturbations, one at a time
        for side in ('hist', 'orac'):
            for key in ('hash', 'clock', 'junk', 'poison', 'environ', 'environ_extra', 'gc', 'stdin', 'capture', 'host', 'pid', 'cpus',
                        'mem_pages', 'rng_seed'):
                if cur[side].get(key) != PLAIN.get(key):
                    c = copy.deepcopy(cur)
                    c[side][key] = copy.deepcopy(PLAIN.get(key))
                    if test(c):
                        cur = c
                        changed = True
        if cur.get('disk'):
            c = copy.deepcopy(cur)
            c['disk'] = {}
            if test(c):
                cur = c
                changed = True
        # 4. model / command line simplification
        for ti, t in enumerate(cur['tasks']):
            if t['kind'] == 'api' and t.get('builder', 'cli') == 'cli':
                k = 0
                while True:
                    units = _argv_units(cur['tasks'][ti]['argv'])
                    if k >= len(units):
                        break
                    c = copy.deepcopy(cur)
                    a = c['tasks'][ti]['argv']
                    c['tasks'][ti]['argv'] = [x for i, x in enumerate(a) if i not in units[k]]
                    if test(c):
                        cur = c
                        changed = True
                    else:
                        k += 1
            elif t['kind'] == 'cli':
                argvs = []
                for o in cur['tasks'][ti]['ops']:
                    if o[0] in ('RUN', 'SWEEP') and o[1] not in argvs:
                        argvs.append(list(o[1]))
                for av in argvs:
                    k = 0
                    while True:
                        units = _argv_units(av)
                        if k >= len(units):
                            break
                        new = [x for i, x in enumerate(av) if i not in units[k]]
                        c = copy.deepcopy(cur)
                        for o in c['tasks'][ti]['ops']:
                            if o[0] in ('RUN', 'SWEEP') and o[1] == av:
                                o[1] = list(new)
                        if test(c):
                            cur = c
                            av = new
                            changed = True
                        else:
                            k += 1
                # sweep steps
                for oi, o in enumerate(cur['tasks'][ti]['ops']):
                    if o[0] == 'SWEEP' and o[3] > 2:
                        c = copy.deepcopy(cur)
                        c['tasks'][ti]['ops'][oi][3] = 2
                        if test(c):
                            cur = c
                            changed = True
    cur = copy.deepcopy(cur)
    cur['shrink'] = dict(candidates=n[0], wall_s=round(time.time() - t0, 1))
    return cur
