"""Planted defects for the sensitivity self-test.

Each entry is a realistic slip expressed as exact text replacements on a
scratch copy of /repo/mininec (never on /repo itself).  `expect` names the
clauses one of which a detecting world must report."""

P = []


def planted(name, expect, note=''):
    def deco(fn):
        P.append(dict(name=name, expect=expect, note=note, edits=fn()))
        return fn
    return deco


MM = 'mininec/mininec.py'
PU = 'mininec/pulse.py'


@planted('zint_cached_forever', ['H1', 'H2', 'H4'], 'the tree\'s own defect 1 (fixed by 8bf1fbd)')
def _():
    return [(MM, "            if w.zint is None or w.zint_f != f:\n", "            if w.zint is None:\n")]


@planted('geo_all_set_iteration', ['H5', 'H6', 'H2', 'H3', 'H4', 'H7'], 'the tree\'s own defect 2 (fixed by 408f3f6)')
def _():
    return [(MM, "            for w in sorted (geo_all, key = lambda g: g.n):\n", "            for w in geo_all:\n")]


@planted('near_field_lists_not_recreated', ['H3', 'H4', 'H2', 'H1', 'H6'])
def _():
    return [(MM, "        self.e_field = []\n        self.h_field = []\n",
             "        if not hasattr (self, 'e_field'):\n            self.e_field = []\n            self.h_field = []\n")]


@planted('media_impedance_cached', ['H1', 'H2'])
def _():
    return [(MM, "            media_impedance = np.array \\\n                ([m.impedance (self.f) for m in self.media])\n",
             "            if not hasattr (self, '_media_imp'):\n                self._media_imp = np.array \\\n"
             "                    ([m.impedance (self.f) for m in self.media])\n            media_impedance = self._media_imp\n")]


@planted('rhs_not_recomputed', ['H1', 'H2'])
def _():
    return [(MM, "        self.currents = None\n        self.rhs      = None\n", "        self.currents = None\n"),
            (MM, "    def compute_rhs (self):\n        rhs = np.zeros",
             "    def compute_rhs (self):\n        if getattr (self, 'rhs', None) is not None:\n            return\n        rhs = np.zeros")]


@planted('srm_only_at_init', ['H1', 'H2'], 'needs the srm_flip probe')
def _():
    return [(MM, "        self.srm     = .0001 * w\n",
             "        if not hasattr (self, 'srm'):\n            self.srm = .0001 * w\n")]


@planted('output_date_default_on', ['H5', 'H6', 'H1', 'H2', 'H3', 'H4', 'H7'], 'simulated clock')
def _():
    return [(MM, "        self.output_date  = False\n", "        self.output_date  = True\n"),
            (MM, "'%H:%M%:%S'", "'%H:%M:%S'")]


@planted('timing_to_stdout', ['H5', 'H6', 'H1'], 'needs -T and the simulated clock')
def _():
    return [(MM, "                % (end_time - start_time, method.__name__)\n                , file = sys.stderr\n",
             "                % (end_time - start_time, method.__name__)\n                , file = sys.stdout\n")]


@planted('wire_object_cache_across_invocations', ['H6', 'H7', 'H1', 'H5'],
         'module-level memo of parsed Wire objects: a later invocation reuses objects that carry connection state')
def _():
    return [(MM, "legendre_cache = {}\n", "legendre_cache = {}\n_wire_cache = {}\n"),
            (MM, "            geo.append (Wire (seg, *r, tag = tag))\n",
             "            key = (seg, tuple (r), tag)\n            if key not in _wire_cache:\n"
             "                _wire_cache [key] = Wire (seg, *r, tag = tag)\n            geo.append (_wire_cache [key])\n")]


@planted('option_file_opened_for_append', ['H5', 'H6'], 'needs a pre-existing output file (stale_file)')
def _():
    return [(MM, "        with open (args.output_cmdline, 'w') as f:\n", "        with open (args.output_cmdline, 'a') as f:\n")]


@planted('pulses_class_attribute', ['H6', 'H7', 'H1', 'H2', 'H3', 'H4', 'H5'])
def _():
    return [(PU, "class Pulse_Container:\n\n    def __init__ (self):\n        self.pulses             = []\n",
             "class Pulse_Container:\n\n    pulses = []\n\n    def __init__ (self):\n")]


@planted('legendre_cache_mutated', ['H1', 'H2', 'H3', 'H4', 'H6', 'H7'],
         'in-place update of a shared module-level array: each evaluation shifts the nodes by one ulp-scale step')
def _():
    return [(MM, "            x, w = legendre_cache [n]\n            y = (x + .5) * b\n",
             "            x, w = legendre_cache [n]\n            x *= (1 + 1e-7)\n            y = (x + .5) * b\n")]


@planted('option_lines_deduplicated_via_set', ['H5'], 'string hash order: exec-level runs only')
def _():
    return [(MM, "        r.append ('')\n        return '\\n'.join (r)\n    # end def as_cmdline\n\n    def check_ground",
             "        r = list (set (r))\n        r.append ('')\n        return '\\n'.join (r)\n    # end def as_cmdline\n\n    def check_ground")]


@planted('far_field_accumulator_uninitialised', ['H1', 'H2', 'H3', 'H4', 'H5', 'H6', 'H7'], 'needs allocator poisoning')
def _():
    return [(MM, "        gain = np.zeros (rvec.shape, dtype = complex)\n", "        gain = np.empty (rvec.shape, dtype = complex)\n")]


@planted('near_field_accumulator_uninitialised', ['H1', 'H2', 'H3', 'H4', 'H5', 'H6', 'H7'], 'needs allocator poisoning')
def _():
    return [(MM, "            u56 = np.zeros ((pxl, 3), dtype = complex)\n", "            u56 = np.empty ((pxl, 3), dtype = complex)\n")]


@planted('sticky_far_field_power', ['H3', 'H2', 'H4'], 'needs param_change')
def _():
    return [(MM, "        self.ff_power = pwr or self.power\n",
             "        self.ff_power = pwr or getattr (self, 'ff_power', None) or self.power\n")]


@planted('Z_rezeroed_only_when_none', ['H4', 'H2', 'H3'], 'needs compute_repeat')
def _():
    return [(MM, "        self.Z = np.zeros ((n, n), dtype=complex)\n",
             "        if self.Z is None:\n            self.Z = np.zeros ((n, n), dtype=complex)\n")]


@planted('power_not_refreshed', ['H1', 'H2'], 'power normalisation kept from the first solve')
def _():
    return [(MM, "        self.power = sum (s.power for s in self.sources)\n",
             "        if not hasattr (self, 'power'):\n            self.power = sum (s.power for s in self.sources)\n")]


@planted('attach_lines_sorted_by_id', ['H5', 'H6', 'H2', 'H3', 'H4', 'H7'], 'needs the id() seam (or ASLR between real processes)')
def _():
    return [(MM, "            for w in sorted (geo_all, key = lambda g: g.n):\n", "            for w in sorted (geo_all, key = id):\n")]


@planted('report_header_mentions_user', ['H5', 'H6', 'H1', 'H2', 'H3', 'H4', 'H7'], 'needs process-environment perturbation')
def _():
    return [(MM, "import sys\nimport copy\n", "import sys\nimport os\nimport copy\n"),
            (MM, "        r.append (' ' * 35 + 'MININEC')\n",
             "        r.append (' ' * 35 + 'MININEC')\n        if os.environ.get ('USER', 'root') != 'root':\n"
             "            r.append (' ' * 30 + 'RUN BY ' + os.environ ['USER'])\n")]


@planted('option_file_records_cwd', ['H5', 'H6'], 'needs cwd perturbation')
def _():
    return [(MM, "import sys\nimport copy\n", "import sys\nimport os\nimport copy\n"),
            (MM, "            f.write (m.as_cmdline (azi = azimuth, zen = zenith))\n",
             "            f.write (m.as_cmdline (azi = azimuth, zen = zenith))\n"
             "            f.write ('# written in %s\\n' % os.getcwd ())\n")]


@planted('report_header_strftime_date', ['H5', 'H6', 'H1', 'H2', 'H3', 'H4', 'H7'], 'needs the complete clock seam (time.strftime)')
def _():
    return [(MM, "        r.append (' ' * 35 + 'MININEC')\n",
             "        r.append (' ' * 35 + 'MININEC')\n        r.append (' ' * 30 + time.strftime ('%Y-%m-%d'))\n")]


@planted('report_header_hostname', ['H5', 'H6', 'H1', 'H2', 'H3', 'H4', 'H7'], 'needs the seeded machine identity')
def _():
    return [(MM, "import sys\nimport copy\n", "import sys\nimport socket\nimport copy\n"),
            (MM, "        r.append (' ' * 35 + 'MININEC')\n",
             "        r.append (' ' * 35 + 'MININEC')\n        r.append (' ' * 30 + 'ON ' + socket.gethostname ())\n")]


@planted('geometry_cache_modified_in_place', ['H1', 'H2', 'H3', 'H4'], 'seen directly through the num.geo.* observables')
def _():
    return [(MM, "        f3   = pv.sign * self.w * pv.seg_len / 2\n",
             "        f3   = pv.sign\n        f3  *= self.w\n        f3   = f3 * pv.seg_len / 2\n")]
