"""Comparators: numeric arrays, report text, sweep blocks."""
import re

import numpy as np

RTOL = 1e-9
STATS = {'ulp_diffs': 0, 'sections': 0}


def reset_stats():
    STATS['ulp_diffs'] = 0
    STATS['sections'] = 0


def cmp_array(a, b):
    """Returns None if equal within tolerance, else a short description.
    b is the reference (oracle)."""
    a = np.asarray(a)
    b = np.asarray(b)
    STATS['sections'] += 1
    if a.shape != b.shape:
        return 'shape %s vs %s' % (a.shape, b.shape)
    if a.dtype == b.dtype and a.tobytes() == b.tobytes():
        return None
    if a.size == 0:
        return None
    ac = a.astype(complex)
    bc = b.astype(complex)
    na = np.isnan(ac.real) | np.isnan(ac.imag)
    nb = np.isnan(bc.real) | np.isnan(bc.imag)
    if (na != nb).any():
        return 'NaN positions differ'
    ia = np.isinf(ac.real) | np.isinf(ac.imag)
    ib = np.isinf(bc.real) | np.isinf(bc.imag)
    if (ia != ib).any():
        return 'inf positions differ'
    if ia.any() and (ac[ia] != bc[ia]).any():
        return 'inf values differ'
    ok = ~(na | ia)
    if not ok.any():
        return None
    ref = np.max(np.abs(bc[ok]))
    d = np.max(np.abs(ac[ok] - bc[ok]))
    if d <= RTOL * ref or (ref == 0 and d == 0):
        STATS['ulp_diffs'] += 1
        return None
    idx = int(np.argmax(np.abs(np.where(ok, ac - bc, 0))))
    return 'max |diff| %.6g at flat index %d (history %s, fresh %s, scale %.6g)' % (
        d, idx, _fmt(ac.flat[idx]), _fmt(bc.flat[idx]), ref)


def _fmt(z):
    if z.imag == 0:
        return '%.9g' % z.real
    return '%.9g%+.9gj' % (z.real, z.imag)


_NUM = re.compile(r'^[-+]?(\d+\.?\d*|\.\d+)([eE][-+]?\d+)?$')


def cmp_text(a, b, numeric_ok=False):
    """Byte comparison; if numeric_ok (the numeric observables of the same
    point agreed within tolerance) a last-digit flip of printed numbers is
    tolerated: token counts and non-numeric tokens must still be identical."""
    STATS['sections'] += 1
    if a == b:
        return None
    if a is None or b is None:
        return 'one side missing'
    if numeric_ok:
        ta, tb = a.split(), b.split()
        if len(ta) == len(tb):
            bad = None
            for x, y in zip(ta, tb):
                if x == y:
                    continue
                if _NUM.match(x) and _NUM.match(y):
                    fx, fy = float(x), float(y)
                    if abs(fx - fy) <= 2e-6 * max(abs(fx), abs(fy)):
                        continue
                bad = (x, y)
                break
            if bad is None:
                STATS['ulp_diffs'] += 1
                return None
    return first_diff(a, b)


def first_diff(a, b):
    la, lb = a.split('\n'), b.split('\n')
    for i, (x, y) in enumerate(zip(la, lb)):
        if x != y:
            return 'line %d: history %r / fresh %r' % (i + 1, x[:120], y[:120])
    return 'length %d vs %d lines (history %r / fresh %r)' % (
        len(la), len(lb), '|'.join(la[len(lb):len(lb) + 2])[:100], '|'.join(lb[len(la):len(la) + 2])[:100])


# ------------------------------------------------------------- sweep cutting

def cut_sweep(text):
    """Cut sweep stdout at the FREQUENCY lines: leading block + one per step."""
    lines = text.split('\n')
    idx = [i for i, l in enumerate(lines) if l.startswith('FREQUENCY (MHZ):')]
    if not idx:
        return lines, []
    lead = lines[:idx[0]]
    blocks = []
    for k, i in enumerate(idx):
        j = idx[k + 1] if k + 1 < len(idx) else len(lines)
        blocks.append(lines[i:j])
    return lead, blocks


def _strip(ls):
    ls = list(ls)
    while ls and ls[-1] == '':
        ls.pop()
    while ls and ls[0] == '':
        ls.pop(0)
    return ls


def region_freq(lines):
    for i, l in enumerate(lines):
        if l.startswith('FREQUENCY (MHZ):'):
            return lines[i:i + 2]
    return None


def region_tail(lines):
    for i, l in enumerate(lines):
        if 'SOURCE DATA' in l and l.startswith('*'):
            return _strip(lines[i:])
    return None


def region_lead(lines):
    """From the ENVIRONMENT line to the end of the load listing."""
    s = None
    for i, l in enumerate(lines):
        if l.startswith('ENVIRONMENT'):
            s = i
            break
    if s is None:
        return None
    e = len(lines)
    for i in range(s, len(lines)):
        if 'SOURCE DATA' in lines[i] and lines[i].startswith('*'):
            e = i
            break
    return _strip(lines[s:e])


def cmp_lines(a, b):
    STATS['sections'] += 1
    if a == b:
        return None
    if a is None or b is None:
        return 'region missing on one side'
    return first_diff('\n'.join(a), '\n'.join(b))
