"""World execution: runs one side (history or oracle) of a plan against the
real pymininec code with all seams installed.  Runs inside a forked child of
a pristine template; see sim/driver.py for the process structure."""
import io
import sys
import hashlib

import numpy as np

from . import seams as S
from .gen import ApiState

_SE = [None]


def get_seams():
    if _SE[0] is None:
        _SE[0] = S.Seams()
    return _SE[0]


def private_dirs(root, env):
    """The durable state of one simulated machine: a working directory, a
    temporary directory and a home directory, all private to this side
    (`root`).  The history side keeps them across invocations and restarts;
    every oracle evaluation gets empty ones.  Anything the program keeps in a
    file - wherever the standard places are - is therefore history."""
    import os
    import hashlib
    import tempfile
    sub = 'cwd'
    cw = (env.get('environ') or {}).get('_cwd')
    if cw:
        # working directories of different depth and spelling
        sub = os.path.join('cwd', hashlib.sha256(cw.encode()).hexdigest()[:6], os.path.basename(cw) or 'w')
        S.fired('cwd_perturb')
    d = dict(cwd=os.path.join(root, sub), tmp=os.path.join(root, 'tmp'), home=os.path.join(root, 'home'))
    for p in d.values():
        os.makedirs(p, exist_ok=True)
    os.chdir(d['cwd'])
    for k in ('TMPDIR', 'TEMP', 'TMP'):
        os.environ[k] = d['tmp']
    os.environ['HOME'] = d['home']
    os.environ['XDG_CACHE_HOME'] = os.path.join(d['home'], '.cache')
    os.environ['XDG_CONFIG_HOME'] = os.path.join(d['home'], '.config')
    os.environ['XDG_DATA_HOME'] = os.path.join(d['home'], '.local', 'share')
    tempfile.tempdir = None         # forget what the template process resolved
    S.fired('private_dirs')
    return d


def setup_side(env, disk_files=None, root=None):
    """Install the seams for one side.  env: plan['hist'] or plan['orac'];
    root: the private real directory of this side (see private_dirs)."""
    se = get_seams()
    dirs = private_dirs(root, env) if root else None
    disk = S.SimDisk(disk_files, root=dirs['cwd'] if dirs else None)
    se.install(clock_spec=env['clock'], hash_spec=env['hash'], disk=disk)
    S._TAP.install()        # one stdout/stderr replacement for the life of this process
    S.hold_junk(*env['junk'])
    if env.get('rng_seed') is not None:
        # forked children inherit the template's random state; real processes
        # seed themselves from the OS - give every side its own
        import random as _random
        _random.seed(env['rng_seed'])
        np.random.seed(env['rng_seed'] % (2 ** 32))
        S.fired('rng_reseeded')
    if env.get('host'):
        S.patch_process_clock(se.clock, host=env['host'], pid=env.get('pid'), cpus=env.get('cpus'),
                               mem_pages=env.get('mem_pages'),
                               numeric_locale=(env.get('environ') or {}).get('LC_NUMERIC'))
    pe = env.get('environ')
    if pe:
        # process environment of this side: nothing of it may reach stdout
        # or an output file
        import os
        for k, v in pe.items():
            if k == '_cwd':
                if dirs:
                    continue
                try:
                    os.chdir(v)
                    S.fired('cwd_perturb')
                except OSError:
                    pass
            elif dirs and k in ('HOME', 'TMPDIR'):
                continue
            else:
                os.environ[k] = v
        S.fired('env_perturb')
    import os as _os
    for k in ('NO_COLOR', 'DEBUG', 'VERBOSE', 'CI', 'SOURCE_DATE_EPOCH', 'MININEC_DEBUG', 'LC_ALL', 'LC_TIME'):
        _os.environ.pop(k, None)
    for k, v in (env.get('environ_extra') or {}).items():
        _os.environ[k] = v
        S.fired('env_extra_variable')
    S.CAPTURE_STYLE[0] = env.get('capture') or 'tap'
    si = env.get('stdin')
    if si:
        attach_stdin(si)
    g = env.get('gc')
    if g:
        import gc
        if g == 'disabled':
            gc.disable()
        elif g == 'eager':
            gc.set_threshold(40, 2, 2)
        GC_BETWEEN[0] = g == 'between_ops'
        S.fired('gc_mode_' + g)
    return se


GC_BETWEEN = [False]

STDIN_TEXT = '# wires.txt\n-w 10,0,3,-5.2,0,3,5.2,0.001\n--excitation-pulse=5,1\n-w 10,0,6,-5.2,0,6,5.2,0.001\n'
_KEEP = []


def attach_stdin(kind):
    """What file descriptor 0 of this process is connected to is not part of
    a command line: /dev/null, a pipe with pending text (the rest of a file a
    surrounding shell loop is reading), an idle pipe, a pipe at end of file,
    a regular file."""
    import os
    if kind == 'null':
        fd = os.open(os.devnull, os.O_RDONLY)
    elif kind == 'file':
        import tempfile
        f = tempfile.TemporaryFile()
        f.write(STDIN_TEXT.encode())
        f.seek(0)
        _KEEP.append(f)
        fd = f.fileno()
    else:
        fd, w = os.pipe()
        if kind == 'data':
            os.write(w, STDIN_TEXT.encode())
            os.close(w)
        elif kind == 'eof':
            os.close(w)
        else:                       # 'idle': the writer stays open and silent
            _KEEP.append(w)
    os.dup2(fd, 0)
    try:
        sys.stdin = open(0, closefd=False)
    except OSError:
        pass
    S.fired('stdin_' + kind)


def poison_value(env):
    p = env.get('poison')
    if p == 'nan':
        return float('nan')
    if p == '1e300':
        return 1e300
    return None


# ------------------------------------------------------------------ faults

class Interrupter:
    """Raises KeyboardInterrupt (Ctrl-C) - or MemoryError, a failing
    allocation - at the k-th call event - Python or C function, i.e. also
    between two numpy calls - that happens inside mininec code while the
    context is active."""

    def __init__(self, k, exc='kbd'):
        import mininec
        import os
        self.k = k
        self.exc = exc
        self.n = 0
        self.fired = False
        self.prefix = os.path.dirname(os.path.abspath(mininec.__file__))

    def prof(self, frame, event, arg):
        if frame.f_code.co_filename.startswith(self.prefix):
            self.n += 1
            if self.n == self.k:
                self.fired = True
                if self.exc == 'mem':
                    raise MemoryError('simulated allocation failure at call event %d' % self.k)
                raise KeyboardInterrupt('simulated interrupt at call event %d' % self.k)

    def __enter__(self):
        sys.setprofile(self.prof)
        return self

    def __exit__(self, *exc):
        sys.setprofile(None)
        return False


def interrupted(fn, k, exc='kbd'):
    """Run fn() and make it fail at call event k (Ctrl-C or a failing
    allocation).  True if the operation ended with an exception, False if it
    completed before reaching event k, 'swallowed' if the fault was raised
    but the operation completed all the same: the program caught it and
    carried on - then what it delivers is an ordinary result and is judged
    as one."""
    it = Interrupter(k, exc)
    try:
        with it:
            fn()
    except (KeyboardInterrupt, MemoryError):
        if it.fired:
            S.fired('interrupt_fired' if exc == 'kbd' else 'alloc_failure_fired')
            return True
        raise
    except Exception:
        if it.fired:
            S.fired('fault_reraised_as_other_exception')
            return True
        raise
    if it.fired:
        S.fired('fault_swallowed_by_program')
        return 'swallowed'
    S.fired('interrupt_not_reached' if exc == 'kbd' else 'alloc_failure_not_reached')
    return False


def op_fault(op):
    if op and isinstance(op[-1], dict):
        return op[-1], list(op[:-1])
    return None, list(op)


BAD_NEAR = [
    lambda m: m.compute_near_field([0, 0], [1, 1], [1, 1]),                   # planar vectors
    lambda m: m.compute_near_field([1, 1, 1], [0, 1, 1], [2, 1, 1]),          # zero increment
    lambda m: m.compute_near_field([1, 1, 1], [1, 1, 1], [1, -2, 1]),         # negative count
    lambda m: m.compute_near_field([1, 1, 1], [1, 1, 1], [0, 0, 0]),          # no points
    lambda m: m.compute_near_field(['a', 1, 1], [1, 1, 1], [1, 1, 1]),        # not a number
    lambda m: m.compute_near_field([1, 1, 1], [1, 1, 1], [1, 1, 1], pwr='x'),
    lambda m: m.compute_near_field([1, 1, 1], [1, 1], [1, 1, 1]),             # ragged
]


def _bad_far(kind):
    def run(m):
        import mininec.mininec as mm
        if kind == 0:
            m.compute_far_field(None, mm.Angle(0, 10, 2))
        elif kind == 1:
            m.compute_far_field(mm.Angle(0, 10, 2), None, pwr=50.0, dist=10.0)
        elif kind == 2:
            m.compute_far_field(mm.Angle(0, 10, 0), mm.Angle(0, 10, 0))
        elif kind == 3:
            m.compute_far_field(mm.Angle(0, 10, 2), mm.Angle(0, 10, 2), pwr='x')
        elif kind == 4:
            m.compute_far_field(mm.Angle(0, 10, 2), mm.Angle(0, 10, 2), dist='far')
        else:
            m.compute_far_field(mm.Angle(0, 10, -1), mm.Angle(0, 10, 3), pwr=1.0)
    return run


BAD_FAR = [_bad_far(i) for i in range(6)]


# ----------------------------------------------------------------- API level

def build_model(argv, f):
    """Build through the program's own option reader."""
    import mininec.mininec as mm
    err = io.StringIO()
    with S.Capture() as cap:
        try:
            m = mm.main(['-f', repr(f)] + list(argv), f_err=err, return_mininec=True)
        except SystemExit as e:
            return None, 'exit:%s' % e.code
        except Exception as e:
            return None, 'raise:%s' % type(e).__name__
    if isinstance(m, mm.Mininec):
        return m, 'ok'
    return None, 'rc:%s' % m


_SHARED_MEDIA = {}
_SHARED_ARGS = {}       # caller-owned argument arrays, reused by later models of this interpreter
ARG_DAMAGE = []         # keys of argument arrays the program modified in place
_ARG_REPORTED = set()


def build_direct(spec, f, history=True):
    """Build through constructors, as the unit tests do; can share the
    exported `ideal_ground` between models."""
    import mininec.mininec as mm
    if spec.get('gauge'):
        # AWG table wires: (n, x1, y1, z1, x2, y2, z2, gauge)
        wires = [mm.Gauge_Wire(*(list(w[:7]) + [spec['gauge']])) for w in spec['wires']]
    else:
        wires = [mm.Wire(*w) for w in spec['wires']]
    media = None
    if spec.get('ground') == 'shared_ideal':
        media = [mm.ideal_ground]
        S.fired('shared_ideal_ground')
    elif spec.get('ground') == 'shared_real':
        # one list of Medium objects handed to every such model of this
        # interpreter (the media list is stored by reference)
        if 'real' not in _SHARED_MEDIA:
            _SHARED_MEDIA['real'] = [mm.Medium(13, 0.005)]
        else:
            S.fired('shared_real_medium')
        media = _SHARED_MEDIA['real']
    elif spec.get('ground') == 'shared_real2':
        # ... a layered ground (two media, interface at 20 m, second medium
        # 1 m lower) shared in the same way
        if 'real2' not in _SHARED_MEDIA:
            _SHARED_MEDIA['real2'] = [mm.Medium(13, 0.005, coord=20), mm.Medium(80, 4, height=-1)]
        else:
            S.fired('shared_real_medium')
        media = _SHARED_MEDIA['real2']
    elif spec.get('ground') == 'ideal':
        media = [mm.Medium(0, 0)]
    def attempt(kind, wi, model):
        # a construction the program rejects; the script catches the error
        # and carries on (a helper that 'falls back' does exactly this)
        w = wires[wi % len(wires)]
        try:
            if kind == 'insul_small':
                mm.Insulation_Load(w, w.r * 0.5, 2.3)
            elif kind == 'skin_twice':
                if w.skin_load is not None:
                    mm.Skin_Effect_Load(w, 1e6)
            elif kind == 'excitation_both':
                mm.Excitation(1 + 1j, 30.0)
            elif kind == 'medium_bad':
                mm.Medium(0, 0, 1.0)
            elif model is not None and kind == 'src_range':
                model.register_source(mm.Excitation(cvolt=1 + 0j), 100000)
            elif model is not None and kind == 'load_range':
                model.register_load(mm.Impedance_Load(5 + 0j), 100000)
            S.fired('rejected_construction_accepted')
        except Exception:
            S.fired('rejected_construction_raised')

    # rejected attempts are history, not part of the model: the fresh
    # evaluation builds the model without them
    rejects = (spec.get('rejects') or []) if history else []
    for rj in rejects:
        if rj[1] == 'before':
            attempt(rj[0], rj[2], None)
    trs = spec.get('transforms') or []
    if trs:
        # geometry container + transformations, handing in caller-owned
        # numpy arrays that the same caller reuses for its next model
        geo = mm.Geo_Container()
        for w in wires:
            geo.append(w)
        geo.compute_tags()
        for tr in trs:
            if tr[0] == 'scale':
                geo.scale(tr[1], tr[2])
                continue
            key = repr(tr[2])
            if spec.get('share_args'):
                if key not in _SHARED_ARGS:
                    _SHARED_ARGS[key] = (np.array(tr[2], dtype=float), np.array(tr[2], dtype=float).tobytes())
                else:
                    S.fired('caller_array_reused')
                arr = _SHARED_ARGS[key][0]
            else:
                arr = list(tr[2])
            getattr(geo, tr[0])(tr[1], arr, tr[3])
        m = mm.Mininec(f, geo, media=media, t=bool(spec.get('timing')))
        for key, (arr, orig) in _SHARED_ARGS.items():
            if arr.tobytes() != orig and key not in ARG_DAMAGE:
                ARG_DAMAGE.append(key)
    else:
        m = mm.Mininec(f, wires, media=media, t=bool(spec.get('timing')))
    for rj in rejects:
        if rj[1] == 'after':
            attempt(rj[0], rj[2], m)
    for src in spec['sources']:
        if src[0] == 'mp':
            # magnitude and phase (degrees) instead of a complex voltage
            m.register_source(mm.Excitation(src[1], src[2]), src[3])
        else:
            m.register_source(mm.Excitation(cvolt=complex(src[0])), src[1])
    for ld in spec.get('xloads', []):
        if ld[0] == 'rlc':
            m.register_load(mm.Series_RLC_Load(ld[1], ld[2], ld[3]), ld[4])
        elif ld[0] == 'trap':
            m.register_load(mm.Trap_Load(ld[1], ld[2], ld[3]), ld[4])
        elif ld[0] == 'laplace':
            m.register_load(mm.Laplace_Load(a=list(ld[1]), b=list(ld[2])), ld[3])
        elif ld[0] == 'insul':
            w = wires[ld[3]]
            m.register_load(mm.Insulation_Load(w, w.r * ld[1], ld[2]), None, w.tag)
    for ld in spec.get('loads', []):
        z, p = ld[0], ld[1]
        form = ld[2] if len(ld) > 2 else 'abs'
        load = mm.Impedance_Load(complex(z))
        if form == 'abs':
            m.register_load(load, p)
        elif form == 'geo':
            w = wires[p % len(wires)]
            m.register_load(load, 0, w.tag)             # first pulse of that object
        elif form == 'all_geo':
            m.register_load(load, None, wires[p % len(wires)].tag)
        else:
            m.register_load(load)                        # every pulse
    for (sig, wi) in spec.get('skin', []):
        ld = mm.Skin_Effect_Load(wires[wi], sig)
        m.register_load(ld, None, wires[wi].tag)
    m.fix_distributed_loads()
    return m, 'ok'


def make_angle(spec):
    import mininec.mininec as mm
    return mm.Angle(float(spec[0]), float(spec[1]), int(spec[2]))


def do_far(m, far, angles=None, positional=False, mutate=False):
    """angles: optional dict used to reuse the caller's Angle objects
    between requests (a caller may well keep them)."""
    zen, azi, pwr, dist = far
    kw = {}
    if pwr:
        kw['pwr'] = pwr
    if dist:
        kw['dist'] = dist
    if angles is not None and mutate:
        # the caller keeps ONE pair of Angle objects and edits them in place
        # before every request
        if '_mut' not in angles:
            angles['_mut'] = (make_angle(zen), make_angle(azi))
        za, aa = angles['_mut']
        for obj, spec in ((za, zen), (aa, azi)):
            obj.initial, obj.inc, obj.number = float(spec[0]), float(spec[1]), int(spec[2])
        S.fired('caller_mutated_angle_objects')
    elif angles is not None:
        key = (tuple(zen), tuple(azi))
        if key not in angles:
            angles[key] = (make_angle(zen), make_angle(azi))
        za, aa = angles[key]
    else:
        za, aa = make_angle(zen), make_angle(azi)
    if positional:
        m.compute_far_field(za, aa, pwr or None, dist or 0)
    else:
        m.compute_far_field(za, aa, **kw)


def do_near(m, near, keep=None, as_array=False):
    """keep: optional dict; the same start/inc/count containers are then
    handed in again on a repeated request (caller-owned, must not be
    modified by the program)."""
    start, inc, cnt, pwr = near
    kw = {}
    if pwr:
        kw['pwr'] = pwr
    if keep is not None:
        key = repr(near[:3])
        if key not in keep:
            if as_array:
                keep[key] = (np.array(start, dtype=float), np.array(inc, dtype=float), np.array(cnt))
            else:
                keep[key] = (list(start), list(inc), list(cnt))
        a, b, c = keep[key]
        m.compute_near_field(a, b, c, **kw)
    else:
        m.compute_near_field(list(start), list(inc), list(cnt), **kw)


def do_compute(m, stepwise=False):
    if stepwise:
        # what compute() does, spelled out by the caller
        m.compute_impedance_matrix()
        m.compute_impedance_matrix_loads()
        m.compute_rhs()
        m.compute_currents()
        m.power = sum(s.power for s in m.sources)
    else:
        m.compute()


def _arr(x):
    return np.array(x)


def sections_num(m, st, loads=True):
    """Numeric observables that are valid in validity state st."""
    r = {}
    if st.computed:
        r['num.Z'] = _arr(m.Z)
        r['num.rhs'] = _arr(m.rhs)
        r['num.current'] = _arr(m.current)
        r['num.power'] = _arr(m.power)
        r['num.src.impedance'] = _arr([s.impedance for s in m.sources])
        r['num.src.power'] = _arr([s.power for s in m.sources])
    # wavelength-derived scalars and the geometry arrays every computation
    # shares (an in-place change of one of them is history for all later ones)
    r['num.scalars'] = _arr([m.f, m.wavelen, m.w, m.w2, m.srm, m.m])
    pc = m.pulses
    for name in ('seg_len', 'dirvec', 'sign', 'gnd_sgn', 'radius', 'point', 'ground', 'inv_ground'):
        try:
            r['num.geo.' + name] = _arr(getattr(pc, name)).astype(float)
        except AttributeError:
            pass
    if st.computed and st.far is not None:
        r['num.far.params'] = _arr([m.ff_power, m.ff_dist or 0])
    if st.computed and st.near is not None:
        r['num.near.params'] = _arr(list(np.array(m.nf_param, dtype=float).flat) + [m.nf_power])
    if loads:
        # same evaluation order as compute(): self.loads, then load.pulses
        v = []
        for l in m.loads:
            for p in l.pulses:
                v.append(l.impedance(m.f, p))
        r['num.load.impedance'] = _arr(v).astype(complex)
    if st.computed and st.far is not None:
        ff = m.far_field
        r['num.far.gain'] = _arr(ff.gain)
        r['num.far.e_theta'] = _arr(ff.e_theta)
        r['num.far.e_phi'] = _arr(ff.e_phi)
    if st.computed and st.near is not None:
        r['num.near.e'] = _arr(m.e_field)
        r['num.near.h'] = _arr(m.h_field)
        r['num.near.coord'] = _arr(m.near_field_coord)
    return r


def sections_report(m, st, opts):
    r = {}
    key = ','.join(sorted(opts))
    r['txt.indep'] = m.frq_independent_as_mininec()
    if st.computed:
        o = opts if isinstance(opts, set) else set(opts)
        r['txt.dep[%s]' % key] = m.frq_dependent_as_mininec(o)
        r['txt.full[%s]' % key] = m.as_mininec(o)
    return r


def sections_cmdline(m, st, far, near):
    kw = {}
    if far is not None:
        kw['zen'] = make_angle(far[0])
        kw['azi'] = make_angle(far[1])
        if far[2]:
            kw['pwr_ff'] = far[2]
        if far[3]:
            kw['ff_dist'] = far[3]
    if near is not None:
        kw['near'] = list(near[0]) + list(near[1]) + list(near[2])
        if near[3]:
            kw['pwr_nf'] = near[3]
    r = {'txt.cmdline': m.as_cmdline(**kw)}
    r['txt.cmdline.bygeo'] = m.as_cmdline(load_by_geo=True, **kw)
    return r


def sections_basic(m, st, far, near, version):
    import argparse
    kw = {}
    if far is not None:
        kw['zen'] = make_angle(far[0])
        kw['azi'] = make_angle(far[1])
        if far[2]:
            kw['pwr_ff'] = far[2]
        if far[3]:
            kw['ff_dist'] = far[3]
            kw['ff_abs'] = True
    if near is not None:
        kw['near'] = list(near[0]) + list(near[1]) + list(near[2])
        if near[3]:
            kw['pwr_nf'] = near[3]
    ns = argparse.Namespace(mininec_version=version)
    return {'txt.basic[%s]' % version: m.as_basic_input(ns, **kw)}


PIECES = ['frequency_as_mininec', 'environment_as_mininec', 'wires_as_mininec', 'sources_as_mininec',
          'loads_as_mininec', 'header_as_mininec']
PIECES_COMPUTED = ['source_data_as_mininec', 'currents_as_mininec']


def sections_misc(m, st, order=0):
    """Debugging aids and the individual report pieces, called directly in
    a seeded order (a caller need not go through as_mininec)."""
    import random as _r
    r = {'txt.geo_as_str': m.geo_as_str(), 'txt.str': '\n'.join(str(g) for g in m.geo)}
    names = list(PIECES)
    if st.computed:
        r['txt.dump_matrix'] = m.dump_matrix()
        names += PIECES_COMPUTED
        r['txt.src.as_mininec'] = '\n'.join(s.as_mininec() for s in m.sources)
        if st.far is not None:
            names += ['far_field_as_mininec', 'far_field_absolute_as_mininec']
            # options=None: the object's own print_opts (far field by default)
            r['txt.as_mininec.default'] = m.as_mininec()
            r['txt.ffp.db'] = m.far_field.db_as_mininec()
            r['txt.ffp.abs'] = m.far_field.abs_gain_as_mininec()
        if st.near is not None:
            names += ['near_field_e_as_mininec', 'near_field_h_as_mininec', 'near_field_header_as_mininec']
    _r.Random(order).shuffle(names)
    for n in names:
        r['txt.piece.' + n] = getattr(m, n)()
    if m.media:
        r['txt.media'] = '\n'.join(md.as_mininec() for md in m.media)
    return r


def abstract_state(m, st):
    zint = any(getattr(g, 'zint', None) is not None for g in m.geo)
    zins = any(getattr(g, 'zins', None) is not None for g in m.geo)
    pc = sum(1 for k in m.pulses.__dict__ if k not in
             ('pulses', 'pulse_idx', 'dvecs_cache', 'endseg_cache',
              'matrix_dvecs_cache', 'matrix_endseg_cache'))
    return (st.f, st.computed, st.far is not None, st.near is not None,
            zint, zins, pc > 0, min(st.ncomp, 3))


class ApiRuntime:
    def __init__(self, task, env):
        self.task = task
        self.st = ApiState()
        self.m = None
        self.status = None
        self.dead = None
        self.pv = poison_value(env)
        self.nfreq_computed = set()
        self.order = []          # sequence of FAR/NEAR kinds executed
        self.shared_opts = set(['far-field', 'near-field', 'far-field-absolute'])   # caller-owned, reused
        self.held = []           # result objects the caller kept, with by-value snapshots
        self.angles = {}         # caller-owned Angle objects reused between requests
        self.nearargs = {}       # caller-owned near-field argument containers
        self.seen_points = {}

    def in_thread(self, fn):
        """Field requests of a task with `thread_fields` are issued from one
        worker thread and awaited (a GUI or a server that keeps its main
        thread free): strictly sequential, but not the thread that assigns
        the frequency.  Which thread asks is not part of the request."""
        if not self.task.get('thread_fields'):
            return fn()
        if getattr(self, '_pool', None) is None:
            from concurrent.futures import ThreadPoolExecutor
            self._pool = ThreadPoolExecutor(max_workers=1)
        S.fired('field_request_from_worker_thread')
        return self._pool.submit(fn).result()

    # -- results handed out earlier must stay what they were ---------------
    def _snap(self, obj):
        a = np.array(obj)
        return (a.dtype.str, a.shape, a.tobytes())

    def hold(self, name, obj):
        self.held.append((name, obj, self._snap(obj), self.st.point()))
        if len(self.held) > 16:
            del self.held[0]

    def hold_results(self, kind):
        if self.task.get('drop_results'):
            # this caller looks at a result and lets go of it: nothing but
            # the model refers to the result objects when the next request
            # arrives (reference counts are a circumstance, too)
            S.fired('caller_drops_results')
            return
        m = self.m
        if kind == 'COMPUTE':
            for n in ('current', 'Z', 'rhs'):
                self.hold(n, getattr(m, n))
        elif kind == 'FAR':
            ff = m.far_field
            for n in ('gain', 'e_theta', 'e_phi', 'azi', 'zen'):
                self.hold('far_field.' + n, getattr(ff, n))
        elif kind == 'NEAR':
            self.hold('e_field', m.e_field)
            self.hold('h_field', m.h_field)
            self.hold('near_field_coord', m.near_field_coord)

    def check_held(self):
        bad = []
        keep = []
        for name, obj, snap, point in self.held:
            try:
                now = self._snap(obj)
            except Exception as e:
                now = ('exc', type(e).__name__)
            if now != snap:
                bad.append((name, point))
            else:
                keep.append((name, obj, snap, point))
        self.held = keep
        return bad

    def ensure(self):
        if self.m is None and self.dead is None:
            f = self.task['pool'][self.st.f]
            try:
                if self.task.get('builder') == 'direct':
                    self.m, self.status = build_direct(self.task['direct'], f)
                else:
                    self.m, self.status = build_model(self.task['argv'], f)
            except Exception as e:      # direct builder
                self.m, self.status = None, 'raise:%s' % type(e).__name__
            if self.m is None:
                self.dead = ('BUILD', self.status)

    def restart(self):
        self.m = None
        self.dead = None
        f = self.st.f
        self.st = ApiState()
        self.st.f = f

    def point(self):
        return self.st.point()

    def poison(self):
        if self.pv is not None:
            grids = []
            for fa in self.task.get('fars', []):
                grids.append(fa[0][2] * fa[1][2])
            S.poison(S.poison_sizes(self.task.get('npulses', 10), grids), self.pv)

    def run_op(self, op):
        """Execute one op.  Returns (executed, sections|None, info)."""
        self.ensure()
        if self.dead is not None:
            return False, None, {'dead': self.dead}
        fault, op = op_fault(op)
        kind = op[0]
        if kind == 'DROP':
            # the caller lets go of this model (end of a function, a loop
            # variable re-bound) and the cyclic collector runs: the lifetime
            # of one model must not matter to the others of the interpreter
            import gc
            self.m = None
            self.held = []
            self.angles = {}
            self.nearargs = {}
            gc.collect()
            S.fired('model_dropped_and_collected')
            self.dead = ('DROP', 'dropped')
            return True, None, {'premature': True}
        m, st, t = self.m, self.st, self.task
        if kind == 'REPORT_EARLY':
            # a report asked for at a moment when not everything it prints has
            # been computed for the current frequency (default options, or a
            # caller-owned option set that is used again later): it raises or
            # prints stale sections - caller error, not judged - and must not
            # change any later report
            self.poison()
            for call in (lambda: m.as_mininec(), lambda: m.as_mininec(self.shared_opts),
                         lambda: m.frq_dependent_as_mininec(self.shared_opts),
                         lambda: m.fields_as_mininec(self.shared_opts)):
                try:
                    call()
                    S.fired('early_report_rendered')
                except Exception:
                    S.fired('early_report_raised')
            return True, None, {'premature': True}
        if kind in ('NEAR_BAD', 'FAR_BAD'):
            # a malformed request: raises somewhere inside the program.  Its
            # own outcome is not judged; the caller catches the exception and
            # goes on, and nothing later may depend on it.  The section it
            # touched is not observed until a well-formed request replaced it.
            if not st.computed:
                return False, None, {'skipped': 'precondition'}
            self.poison()
            fn = (BAD_NEAR if kind == 'NEAR_BAD' else BAD_FAR)[op[1] % (len(BAD_NEAR) if kind == 'NEAR_BAD' else len(BAD_FAR))]
            try:
                fn(m)
                S.fired('malformed_request_accepted')
            except Exception:
                S.fired('malformed_request_raised')
            if kind == 'NEAR_BAD':
                st.near = None
            else:
                st.far = None
            return True, None, {'premature': True}
        if fault and fault.get('interrupt') and kind in ('SET_F', 'COMPUTE', 'FAR', 'NEAR') and st.can(op):
            # Ctrl-C at a seeded point inside the operation; the caller then
            # issues the same operation again (below, without fault)
            self.poison()
            k = int(fault['interrupt'])
            ex = fault.get('exc', 'kbd')
            if kind == 'SET_F':
                res = interrupted(lambda: setattr(m, 'f', t['pool'][op[1]]), k, ex)
            elif kind == 'COMPUTE':
                res = interrupted(lambda: do_compute(m, stepwise=(len(op) > 1 and op[1] == 'steps')), k, ex)
            elif kind == 'FAR':
                res = interrupted(lambda: do_far(m, t['fars'][op[1]]), k, ex)
            else:
                res = interrupted(lambda: do_near(m, t['nears'][op[1]]), k, ex)
            if res == 'swallowed':
                # the program caught the fault and completed the operation:
                # no re-issue, its result stands and is observed like any other
                st.apply(op)
                if kind == 'COMPUTE':
                    self.nfreq_computed.add(st.f)
                return True, None, {'swallowed': True}
        if not self.st.can(op):
            if kind in ('FAR', 'NEAR') and len(op) > 2 and 'x' in op[2]:
                # a premature field request (before the first compute, or
                # after a frequency change without compute): caller error.
                # It raises or works on stale currents; its own result is
                # not judged, but it must not influence anything later.
                self.poison()
                try:
                    if kind == 'FAR':
                        do_far(m, t['fars'][op[1]])
                    else:
                        do_near(m, t['nears'][op[1]])
                    S.fired('premature_field_request_ran')
                except Exception:
                    S.fired('premature_field_request_raised')
                return True, None, {'premature': True}
            return False, None, {'skipped': 'precondition'}
        self.poison()
        info = {}
        try:
            if kind == 'SET_F':
                st.apply(op)
                m.f = t['pool'][op[1]]
            elif kind == 'COMPUTE':
                if self.nfreq_computed - {st.f}:
                    S.fired('freq_history')
                if st.f in self.nfreq_computed and len(self.nfreq_computed) > 1:
                    S.fired('freq_revisit')
                if st.computed:
                    S.fired('compute_repeat')
                do_compute(m, stepwise=(len(op) > 1 and op[1] == 'steps'))
                st.apply(op)
                self.nfreq_computed.add(st.f)
            elif kind == 'FAR':
                if st.far is not None and st.far != op[1]:
                    S.fired('param_change')
                if st.far == op[1]:
                    S.fired('field_repeat')
                if st.near is not None:
                    S.fired('field_order')
                    info['probe'] = 'near_then_far'
                var = op[2] if len(op) > 2 else ''
                self.in_thread(lambda: do_far(m, t['fars'][op[1]],
                                              angles=self.angles if ('r' in var or 'm' in var) else None,
                                              positional='p' in var, mutate='m' in var))
                st.apply(op)
            elif kind == 'NEAR':
                if st.near is not None and st.near != op[1]:
                    S.fired('param_change')
                if st.near == op[1]:
                    S.fired('field_repeat')
                if st.far is not None:
                    S.fired('field_order')
                    info['probe'] = 'far_then_near'
                var = op[2] if len(op) > 2 else ''
                self.in_thread(lambda: do_near(m, t['nears'][op[1]], keep=self.nearargs if 'r' in var else None,
                                               as_array='a' in var))
                st.apply(op)
            elif kind == 'OBS_NUM':
                return True, sections_num(m, st), info
            elif kind == 'OBS_REPORT':
                if not st.computed:
                    S.fired('observe_before_compute')
                opts = [o for o in op[1] if
                        (o.startswith('far') and st.far is not None) or
                        (o == 'near-field' and st.near is not None)]
                info['opts'] = opts
                if set(opts) == self.shared_opts:
                    # hand in the caller's long-lived set object itself
                    sec = sections_report(m, st, self.shared_opts)
                    S.fired('caller_option_set_reused')
                else:
                    sec = sections_report(m, st, opts)
                if self.shared_opts != set(['far-field', 'near-field', 'far-field-absolute']):
                    info['args_damaged'] = 'report option set'
                sec.update(sections_num(m, st, loads=False))
                return True, sec, info
            elif kind == 'OBS_CMDLINE':
                far = t['fars'][st.far] if st.far is not None else None
                near = t['nears'][st.near] if st.near is not None else None
                return True, sections_cmdline(m, st, far, near), info
            elif kind == 'OBS_BASIC':
                far = t['fars'][st.far] if st.far is not None else None
                near = t['nears'][st.near] if st.near is not None else None
                return True, sections_basic(m, st, far, near, op[1]), info
            elif kind == 'OBS_MISC':
                return True, sections_misc(m, st, op[1] if len(op) > 1 else 0), info
            else:
                raise ValueError('unknown op %r' % (op,))
        except Exception as e:
            st.apply(op)
            self.dead = (kind, 'raise:%s' % type(e).__name__)
            if kind.startswith('OBS_'):
                w = {'OBS_NUM': 'num', 'OBS_REPORT': 'report', 'OBS_CMDLINE': 'cmdline',
                     'OBS_BASIC': 'basic', 'OBS_MISC': 'misc'}[kind]
                return True, {'exc:%s' % w: type(e).__name__}, info
            return True, {'exc': '%s:%s' % (kind, type(e).__name__)}, info
        return True, None, info


def oracle_api(task, point, wanted):
    """Evaluate one configuration point from nothing.

    point = (f index, computed, far index|None, near index|None)
    wanted = sorted list of observation requests:
        ('num',), ('report', opts-tuple), ('cmdline',)
    Order: build at f, compute, near field, far field, then render."""
    fi, computed, fari, neari = point
    st = ApiState()
    st.f = fi
    f = task['pool'][fi]
    try:
        if task.get('builder') == 'direct':
            m, status = build_direct(task['direct'], f, history=False)
        else:
            m, status = build_model(task['argv'], f)
    except Exception as e:
        m, status = None, 'raise:%s' % type(e).__name__
    if m is None:
        return {'dead': ('BUILD', status)}
    out = {}
    step = 'COMPUTE'
    try:
        if computed:
            m.compute()
            st.computed = True
            if neari is not None:
                step = 'NEAR'
                do_near(m, task['nears'][neari])
                st.near = neari
            if fari is not None:
                step = 'FAR'
                do_far(m, task['fars'][fari])
                st.far = fari
    except Exception as e:
        return {'exc': '%s:%s' % (step, type(e).__name__)}
    for w in wanted:
        try:
            if w[0] == 'num':
                out.update(sections_num(m, st))
            elif w[0] == 'report':
                sec = sections_report(m, st, list(w[1]))
                sec.update(sections_num(m, st, loads=False))
                out.update(sec)
            elif w[0] == 'cmdline':
                far = task['fars'][fari] if fari is not None else None
                near = task['nears'][neari] if neari is not None else None
                out.update(sections_cmdline(m, st, far, near))
            elif w[0] == 'basic':
                far = task['fars'][fari] if fari is not None else None
                near = task['nears'][neari] if neari is not None else None
                out.update(sections_basic(m, st, far, near, w[1]))
            elif w[0] == 'misc':
                out.update(sections_misc(m, st, w[1] if len(w) > 1 else 0))
        except Exception as e:
            out['exc:%s' % w[0]] = type(e).__name__
    return out


# ----------------------------------------------------------------- CLI level

OUTFLAGS = ('--output-cmdline', '--output-basic-input')


def out_paths(argv):
    r = []
    for flag in OUTFLAGS:
        for i, a in enumerate(argv):
            if a == flag and i + 1 < len(argv):
                r.append((flag, argv[i + 1]))
            elif a.startswith(flag + '='):
                r.append((flag, a.split('=', 1)[1]))
    return r


def run_main(argv, disk, torn=None, interrupt=None):
    """One invocation of the real main().  Returns the observation."""
    import mininec.mininec as mm
    if torn:
        disk.torn.update(torn)
    n_opens = len(disk.opens)
    err = io.StringIO()
    outcome = None
    with S.Capture() as cap:
        try:
            if interrupt:
                box = []
                if isinstance(interrupt, (list, tuple)):
                    k, ex = int(interrupt[0]), interrupt[1]
                else:
                    k, ex = int(interrupt), 'kbd'
                hit = interrupted(lambda: box.append(mm.main(list(argv), f_err=err)), k, ex)
                rc = box[0] if box else None
                if hit is True or (hit == 'swallowed' and rc is not None):
                    # the fault left the invocation, or the program caught it
                    # and reported a failure (main() turns some exceptions
                    # into an error message and return code 23): a failed
                    # invocation either way, its outcome is not judged.  Only
                    # an invocation that swallows the fault and reports
                    # SUCCESS delivers an ordinary result.
                    raise S.DiskFault('interrupted')
            else:
                rc = mm.main(list(argv), f_err=err)
            outcome = 'ok' if rc is None else 'rc:%s' % rc
        except SystemExit as e:
            outcome = 'exit:%s' % e.code
        except S.DiskFault:
            outcome = 'diskfault'
        except Exception as e:
            outcome = 'raise:%s' % type(e).__name__
    # only files this invocation opened are its output; a path it never
    # reached (early rc 23, exception before the write) keeps whatever the
    # disk held before and is not an observable of this run
    files = {}
    opened = set(p for p, mode in disk.opens[n_opens:])
    for flag, p in out_paths(argv):
        files[flag + ':' + p] = disk.files.get(p) if p in opened else None
    return dict(outcome=outcome, stdout=cap.out.getvalue(),
                stderr=cap.err.getvalue() + err.getvalue(), files=files)


def sweep_argv(base, inc, steps, style=0):
    """The sweep options in one of the spellings the option parser accepts."""
    if style == 1:
        return list(base) + ['--f-inc', repr(inc), '--n-f', str(steps)]
    if style == 2:
        return ['--n-f=%d' % steps] + list(base) + ['--f-inc=%r' % inc]
    if style == 3:
        return list(base) + ['--frequency-steps', str(steps), '--frequency-increment', repr(inc)]
    return list(base) + ['--frequency-increment=%r' % inc, '--frequency-steps=%d' % steps]


def base_f(argv):
    """Frequency of a command line and where it is written: index of the
    value, or (index, 'eq') for the --frequency=VALUE spelling."""
    for i, a in enumerate(argv):
        if a in ('-f', '--frequency') and i + 1 < len(argv):
            return float(argv[i + 1]), i + 1
        if a.startswith('--frequency='):
            return float(a.split('=', 1)[1]), (i, 'eq')
        if a.startswith('-f') and len(a) > 2 and a[2] not in '-abcdefghijklmnopqrstuvwxyz':
            try:
                return float(a[2:]), (i, 'short')
            except ValueError:
                pass
    return 7.0, None


def with_f(argv, f, strip_out=True):
    a = list(argv)
    f0, i = base_f(a)
    if i is None:
        a = ['-f', repr(f)] + a
    elif isinstance(i, tuple):
        a[i[0]] = ('--frequency=' if i[1] == 'eq' else '-f') + repr(f)
    else:
        a[i] = repr(f)
    if strip_out:
        r = []
        skip = False
        for x in a:
            if skip:
                skip = False
                continue
            if x in OUTFLAGS:
                skip = True
                continue
            r.append(x)
        a = r
    return a


# -------------------------------------------------------------------- digest

def digest_sections(sec):
    h = hashlib.sha256()
    if sec is None:
        return '-'
    for k in sorted(sec):
        v = sec[k]
        h.update(k.encode())
        if isinstance(v, np.ndarray):
            h.update(str(v.dtype).encode())
            h.update(str(v.shape).encode())
            h.update(np.ascontiguousarray(v).tobytes())
        elif isinstance(v, dict):
            h.update(repr(sorted(v.items())).encode())
        else:
            h.update(repr(v).encode())
    return h.hexdigest()[:16]


# ------------------------------------------------------------------- history

def run_history(plan, start=0, disk_files=None, positions=None, apistates=None, root=None):
    """Execute the history side from schedule index `start` until the end or
    a RESTART.  Returns a picklable result."""
    S.reset_faults()
    env = plan['hist']
    se = setup_side(env, disk_files if disk_files is not None else plan.get('disk'), root)
    tasks = plan['tasks']
    rts = []
    for i, t in enumerate(tasks):
        if t['kind'] == 'api':
            rt = ApiRuntime(t, env)
            if apistates and apistates[i] is not None:
                rt.st.f = apistates[i]
                rt.restarted = True
            rts.append(rt)
        else:
            rts.append(None)
    pos = list(positions) if positions else [0] * len(tasks)
    obs = []
    log = []
    probes = {}
    states = set()
    transitions = set()
    sched_sig = []
    ran_model_code = False
    last_task = None
    argv_count = {}
    hist_outcomes = set()
    stop = None
    sched = plan['schedule']
    i = start
    while i < len(sched):
        ti = sched[i]
        t = tasks[ti]
        op = t['ops'][pos[ti]]
        pos[ti] += 1
        if GC_BETWEEN[0]:
            import gc
            gc.collect()
        kind = op[0]
        sched_sig.append((ti, kind))
        if last_task is not None and last_task != ti:
            S.fired('interleave_switch')
        last_task = ti
        rec = dict(step=i, task=ti, op=op, clause=None, sections=None)
        if t['kind'] == 'api':
            rt = rts[ti]
            before = None
            if rt.m is not None:
                before = abstract_state(rt.m, rt.st)
            executed, sec, info = rt.run_op(op)
            for key in ARG_DAMAGE:
                if key not in _ARG_REPORTED:
                    _ARG_REPORTED.add(key)
                    rec.setdefault('held_changed', []).append(('argument array %s' % key, rt.point()))
            if executed and rt.m is not None and rt.dead is None:
                changed = rt.check_held()
                if changed:
                    rec['held_changed'] = rec.get('held_changed', []) + changed
                if kind in ('COMPUTE', 'FAR', 'NEAR') and not info.get('premature'):
                    rt.hold_results(kind)
            if not executed and info.get('dead') and info['dead'][0] == 'BUILD' \
                    and not getattr(rt, 'dead_reported', False):
                sec = {'dead': list(info['dead'])}
                rt.dead_reported = True
            if 'opts' in info:
                rec['opts'] = info['opts']
            if info.get('args_damaged') and not getattr(rt, 'opts_damage_reported', False):
                rt.opts_damage_reported = True
                rec.setdefault('held_changed', []).append(('argument ' + info['args_damaged'], rt.point()))
            if rt.m is not None:
                after = abstract_state(rt.m, rt.st)
                states.add(after)
                transitions.add((before, kind, after))
            if info.get('probe'):
                probes[info['probe']] = probes.get(info['probe'], 0) + 1
            if executed and kind == 'OBS_REPORT' and not rt.st.computed and not rt.nfreq_computed:
                probes['obs_before_first_compute'] = probes.get('obs_before_first_compute', 0) + 1
            if executed and kind == 'SET_F' and op[1] in rt.nfreq_computed:
                probes['revisit'] = probes.get('revisit', 0) + 1
            rec['executed'] = executed
            rec['point'] = rt.point()
            rec['sections'] = sec
            rec['had_history'] = bool(rt.nfreq_computed - {rt.st.f}) or rt.st.ncomp > 1 \
                or len(rt.order) > 0 or ran_model_code
            rec['abstract'] = before
            if executed and kind in ('FAR', 'NEAR'):
                rt.order.append(kind)
            ran_model_code = True
        else:
            disk = se.disk
            if kind == 'RUN':
                torn = op[2].get('torn') if len(op) > 2 and op[2] else None
                intr = op[2].get('interrupt') if len(op) > 2 and op[2] else None
                if intr:
                    intr = (intr, op[2].get('exc', 'kbd'))
                key = tuple(op[1])
                argv_count[key] = argv_count.get(key, 0) + 1
                if argv_count[key] == 3:
                    probes['same_argv_3x_in_process'] = probes.get('same_argv_3x_in_process', 0) + 1
                for flag, p in out_paths(op[1]):
                    if p in disk.files and disk.files[p] and len(disk.files[p]) > 300:
                        probes['stale_file_longer_than_new'] = probes.get('stale_file_longer_than_new', 0) + 1
                if 'rc23' in hist_outcomes:
                    probes['history_contains_rc23'] = probes.get('history_contains_rc23', 0) + 1
                if 'raise' in hist_outcomes:
                    probes['history_contains_raise'] = probes.get('history_contains_raise', 0) + 1
                if rts and ran_model_code:
                    pass
                r = run_main(op[1], disk, torn, intr)
                rec['sections'] = r
                rec['torn'] = bool(torn) or r['outcome'] == 'diskfault'
                rec['fresh'] = not ran_model_code
                if ran_model_code:
                    S.fired('prior_run_ok' if 'ok' in hist_outcomes else 'prior_activity')
                hist_outcomes.add('ok' if r['outcome'] == 'ok' else r['outcome'].split(':')[0])
                ran_model_code = True
            elif kind == 'SWEEP':
                if op[2] < 0:
                    probes['sweep_negative_increment'] = probes.get('sweep_negative_increment', 0) + 1
                r = run_main(sweep_argv(op[1], op[2], op[3], op[4] if len(op) > 4 else 0), disk)
                rec['sections'] = r
                rec['fresh'] = not ran_model_code
                S.fired('freq_history')
                hist_outcomes.add('ok' if r['outcome'] == 'ok' else r['outcome'].split(':')[0])
                ran_model_code = True
            elif kind == 'RUN_BAD':
                r = run_main(op[1], disk)
                rec['sections'] = r
                oc = r['outcome']
                if oc == 'rc:23':
                    S.fired('prior_run_rc23')
                    hist_outcomes.add('rc23')
                elif oc.startswith('raise'):
                    S.fired('prior_run_raised')
                    hist_outcomes.add('raise')
                elif oc.startswith('exit'):
                    S.fired('prior_run_exit')
                    hist_outcomes.add('exit')
                ran_model_code = True
            elif kind == 'RESTART':
                S.fired('restart')
                log.append('%d t%d RESTART' % (i, ti))
                obs.append(rec)
                stop = i + 1
                break
        rec['digest'] = digest_sections(rec['sections'])
        log.append('%d t%d %s %s' % (i, ti, _opstr(op), rec['digest']))
        obs.append(rec)
        i += 1
    return dict(obs=obs, log=log, faults=dict(S.FAULTS), probes=probes,
                states=states, transitions=transitions, sched=sched_sig,
                stop=stop, pos=pos, disk=dict(se.disk.files),
                apif=[(rt.st.f if rt is not None else None) for rt in rts],
                sim_time=se.clock.elapsed, clock_reads=se.clock.reads)


def _opstr(op):
    s = op[0]
    if len(op) > 1:
        h = hashlib.sha256(repr(op[1:]).encode()).hexdigest()[:8]
        s += ':' + h
    return s
