"""Exec-level launcher: a completely fresh interpreter (own PYTHONHASHSEED,
own environment) that installs the seams and runs one command line.

stdin: JSON {repo, side, argv, disk}; stdout: JSON observation."""
import os
import sys
import json


def main():
    spec = json.load(sys.stdin)
    sys.path[:0] = [spec['repo'], spec['verif']]
    import mininec.mininec  # noqa: F401
    from sim import world as W
    from sim import seams as S
    se = W.setup_side(spec['side'], spec.get('disk') or {}, spec.get('root'))
    pv = W.poison_value(spec['side'])
    if pv is not None:
        S.poison(S.poison_sizes(spec.get('npulses', 10), [40, 370]), pv)
    r = W.run_main(spec['argv'], se.disk)
    r['hashseed'] = os.environ.get('PYTHONHASHSEED')
    # the tap has replaced sys.stdout for the program; the harness speaks
    # through the interpreter's original stream
    json.dump(r, sys.__stdout__)
    sys.__stdout__.flush()


if __name__ == '__main__':
    main()
