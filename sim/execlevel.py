"""H5 at the level of real process boundaries.

L2a: fresh interpreter via exec with a seeded PYTHONHASHSEED, seeded process
     environment (TZ, LC_ALL, LANG, COLUMNS, HOME, cwd), seams installed by
     sim/launcher.py.
L2b: completely unpatched `python -m mininec.mininec ...` with the real clock
     and a real scratch directory (seam-fidelity cross-check).
All members of "runs of this command line" must agree byte for byte."""
import os
import sys
import json
import random
import shutil
import tempfile
import subprocess

from . import gen as G
from . import world as W
from . import seams as S

PY = sys.executable
HERE = os.path.dirname(os.path.abspath(__file__))
VERIF = os.path.dirname(HERE)


def child_env(rng, hashseed, perturb=True):
    env = {k: v for k, v in os.environ.items()
           if k in ('PATH', 'LD_LIBRARY_PATH', 'VIRTUAL_ENV')}
    env['PYTHONHASHSEED'] = str(hashseed)
    env['OPENBLAS_NUM_THREADS'] = '1'
    env['OMP_NUM_THREADS'] = '1'
    env['MKL_NUM_THREADS'] = '1'
    env['PYTHONDONTWRITEBYTECODE'] = '1'
    if perturb:
        env['TZ'] = rng.choice(['UTC', 'Europe/Vienna', 'Asia/Kolkata', 'America/St_Johns', 'Pacific/Chatham'])
        env['LC_ALL'] = rng.choice(['C', 'C.UTF-8', 'de_AT.UTF-8', 'tr_TR.UTF-8', 'POSIX'])
        env['LANG'] = rng.choice(['C', 'en_US.UTF-8', 'de_DE'])
        env['COLUMNS'] = str(rng.choice([20, 80, 200]))
        env['HOME'] = rng.choice(['/nonexistent', '/', '/root'])
        env['LC_NUMERIC'] = rng.choice(['C', 'de_DE.UTF-8', 'fr_FR.UTF-8'])
        # the interpreter's warning configuration (never 'error': turning
        # numpy's RuntimeWarnings into exceptions is what that setting asks for)
        w = rng.choice([None, None, 'ignore', 'always', 'default', 'once'])
        if w:
            env['PYTHONWARNINGS'] = w
            S.fired('warning_filter_varied')
        for i in range(rng.randrange(0, 4)):
            env['VERIF_NOISE_%d' % i] = 'x' * rng.randrange(1, 300)
        # variables programs and libraries commonly consult
        for k, v in (('NO_COLOR', '1'), ('DEBUG', '1'), ('VERBOSE', '1'), ('LINES', '24'), ('PWD', '/somewhere/else'),
                     ('LOGNAME', 'oe1rsa'), ('HOSTNAME', 'shack'), ('SHELL', '/bin/zsh'), ('LC_TIME', 'de_AT.UTF-8'),
                     ('PYTHONUNBUFFERED', '1'), ('CI', 'true'), ('SOURCE_DATE_EPOCH', '1234567890'),
                     ('MININEC_DEBUG', '1'), ('MPLBACKEND', 'Agg'), ('DISPLAY', ':0'), ('TERM', 'dumb')):
            if rng.random() < 0.4:
                env[k] = v
                S.fired('env_extra_variable')
        S.fired('env_perturb')
    return env


def _affinity_fn(rng):
    """Restrict the child to 1 or 2 CPUs, or leave it alone."""
    try:
        allowed = sorted(os.sched_getaffinity(0))
    except AttributeError:
        return None
    k = rng.choice([1, 2, None])
    if k is None or len(allowed) <= k:
        return None
    cpus = set(rng.sample(allowed, k))
    S.fired('cpu_affinity_restricted')

    def fn():
        os.sched_setaffinity(0, cpus)
    return fn


def exec_sim(repo, argv, side, hashseed, rng, cwd, npulses=10, disk=None, pyflags=(), root=None):
    """`root`: private directory tree of the simulated machine this process
    runs on (working, temporary, home directory); shared by the runs of one
    group, so a later run finds what an earlier one left."""
    if root and (side.get('environ') or {}).get('_cwd'):
        # one working directory for all runs on this machine
        side = dict(side, environ={k: v for k, v in side['environ'].items() if k != '_cwd'})
    spec = dict(repo=repo, verif=VERIF, side=side, argv=argv, disk=disk or {}, npulses=npulses, root=root)
    if pyflags:
        S.fired('interpreter_flags')
    p = subprocess.run([PY] + list(pyflags) + [os.path.join(HERE, 'launcher.py')], input=json.dumps(spec),
                       capture_output=True, text=True, env=child_env(rng, hashseed),
                       cwd=cwd, timeout=300, preexec_fn=_affinity_fn(rng))
    S.fired('hashseed_exec')
    if p.returncode != 0:
        raise RuntimeError('launcher failed rc=%s: %s' % (p.returncode, p.stderr[-2000:]))
    return json.loads(p.stdout)


class _Done:
    def __init__(self, returncode, stdout, stderr):
        self.returncode, self.stdout, self.stderr = returncode, stdout, stderr


def _run_on_tty(cmd, env, cwd, out_tty=True, err_tty=False, in_tty=False, preexec=None):
    """Run with stdout and/or stderr (and/or stdin) connected to
    pseudo-terminals (isatty() is true for the program); output
    post-processing of the ttys is switched off so the bytes arrive
    unchanged."""
    import pty
    import select
    import termios

    def raw_pty():
        master, slave = pty.openpty()
        attr = termios.tcgetattr(slave)
        attr[1] = attr[1] & ~termios.OPOST
        termios.tcsetattr(slave, termios.TCSANOW, attr)
        return master, slave

    fds = {}
    kw = {}
    close_after = []
    for name, want in (('stdout', out_tty), ('stderr', err_tty)):
        if want:
            mfd, sfd = raw_pty()
            fds[mfd] = name
            kw[name] = sfd
            close_after.append(sfd)
        else:
            r, w = os.pipe()
            fds[r] = name
            kw[name] = w
            close_after.append(w)
    if in_tty:
        imaster, islave = raw_pty()
        kw['stdin'] = islave
        close_after.append(islave)
    else:
        imaster = None
        kw['stdin'] = subprocess.DEVNULL
    p = subprocess.Popen(cmd, env=env, cwd=cwd, preexec_fn=preexec, **kw)
    for fd in close_after:
        os.close(fd)
    chunks = {'stdout': [], 'stderr': []}
    live = set(fds)
    while live:
        r, _, _ = select.select(list(live), [], [], 0.2)
        if not r:
            if p.poll() is not None:
                # drain once more, then stop
                r, _, _ = select.select(list(live), [], [], 0.05)
                if not r:
                    break
            else:
                continue
        for fd in r:
            try:
                b = os.read(fd, 65536)
            except OSError:
                b = b''
            if not b:
                live.discard(fd)
            else:
                chunks[fds[fd]].append(b)
    p.wait()
    for fd in fds:
        os.close(fd)
    if imaster is not None:
        os.close(imaster)
    S.fired('stdout_is_tty' if out_tty else 'stdout_is_pipe')
    if err_tty:
        S.fired('stderr_is_tty')
    if in_tty:
        S.fired('stdin_is_tty')
    return _Done(p.returncode, b''.join(chunks['stdout']).decode(errors='replace'),
                 b''.join(chunks['stderr']).decode(errors='replace'))


def exec_real(repo, argv, hashseed, rng, scratch, tty=False, optimize=False, streams=None, workdir=None,
              stdin_data=None):
    """Unpatched run with real clock and real files in a scratch directory.
    With `workdir` the run happens in that (caller-owned) directory tree,
    which also holds its temporary and home directory: what earlier runs
    left there - output files, anything else - is this run's history."""
    d = workdir or tempfile.mkdtemp(prefix='real', dir=scratch)
    try:
        env = child_env(rng, hashseed)
        env['PYTHONPATH'] = repo
        if workdir:
            for sub, keys in (('tmp', ('TMPDIR', 'TEMP', 'TMP')), ('home', ('HOME',))):
                os.makedirs(os.path.join(d, sub), exist_ok=True)
                for k in keys:
                    env[k] = os.path.join(d, sub)
            env['XDG_CACHE_HOME'] = os.path.join(d, 'home', '.cache')
            S.fired('real_run_in_used_directory')
        if optimize:
            env['PYTHONOPTIMIZE'] = '1'
            S.fired('interpreter_flags')
        p = None
        if tty or streams:
            env['TERM'] = 'xterm-256color'
            st = streams or dict(out_tty=True)
            try:
                p = _run_on_tty([PY, '-m', 'mininec.mininec'] + list(argv), env, d, preexec=_affinity_fn(rng), **st)
            except OSError:
                S.fired('tty_unavailable')      # no pseudo-terminals in this sandbox
                p = None
        if p is None:
            kw = dict(input=stdin_data) if stdin_data is not None else dict(stdin=subprocess.DEVNULL)
            if stdin_data is not None:
                S.fired('stdin_data')
            p = subprocess.run([PY, '-m', 'mininec.mininec'] + list(argv), capture_output=True,
                               text=True, env=env, cwd=d, timeout=300, preexec_fn=_affinity_fn(rng), **kw)
        files = {}
        for flag, path in W.out_paths(argv):
            fp = os.path.join(d, path)
            files[flag + ':' + path] = open(fp).read() if os.path.exists(fp) else None
        if p.returncode == 0:
            outcome = 'ok'
        elif p.returncode == 1 and 'Traceback' in p.stderr:
            last = p.stderr.strip().split('\n')[-1]
            outcome = 'raise:' + last.split(':')[0].split('.')[-1]
        else:
            outcome = 'exit:%d' % p.returncode
        S.fired('unpatched_real_run')
        return dict(outcome=outcome, stdout=p.stdout, stderr=p.stderr, files=files)
    finally:
        if not workdir:
            shutil.rmtree(d, ignore_errors=True)


def gen_cmdline(rng, env=None, kinds=None, force_opt=None, want=(), sweep=None):
    """One command line with an option file (the H5 observable).  `want`
    lists generator features the model must have (bounded retries)."""
    for _ in range(200):
        m = G.gen_model(rng, env=env, kinds=kinds)
        if all(w in m.features for w in want):
            break
    pool, _ = G.gen_pool(rng, m, k=2)
    argv = ['-f', repr(pool[0])] + m.argv() + G.field_args(rng, m, force=force_opt)
    argv += ['--output-cmdline', 'opt.txt']
    if (rng.random() < 0.2 and sweep is None) or sweep:
        inc = float(repr(round(pool[1] - pool[0], 6)))
        if pool[0] + 2 * inc > 0.2:
            argv += ['--frequency-increment=%r' % inc, '--frequency-steps=%d' % rng.choice([2, 3])]
    if rng.random() < 0.3:
        argv += ['--output-basic-input', 'basic.in']
    if rng.random() < 0.2:
        argv += ['-T']
    return argv, m


def sibling_cmdline(rng, argv, m):
    """The command line of a sibling model (one change) with the same
    frequency, field and output options: what a user runs in the same
    directory between two runs of `argv`."""
    sib = G.variant_model(rng, m)
    k = len(m.argv())
    i = 2                           # after '-f', f
    assert argv[i:i + k] == m.argv()
    return argv[:i] + sib.argv() + argv[i + k:]
