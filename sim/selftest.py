"""Self-tests of the simulator: determinism on a large sample, and
sensitivity to planted defects (on scratch copies of /repo/mininec)."""
import os
import re
import sys
import json
import time
import shutil
import tempfile
import subprocess

HERE = os.path.dirname(os.path.abspath(__file__))
VERIF = os.path.dirname(HERE)
REPO = os.environ.get('VERIF_REPO', '/repo')


def apply_planted(entry, dst):
    shutil.copytree(os.path.join(REPO, 'mininec'), os.path.join(dst, 'mininec'),
                    ignore=shutil.ignore_patterns('__pycache__'))
    for rel, old, new in entry['edits']:
        p = os.path.join(dst, rel)
        s = open(p).read()
        if s.count(old) != 1:
            raise RuntimeError('planted %s: anchor occurs %d times in %s' % (entry['name'], s.count(old), rel))
        open(p, 'w').write(s.replace(old, new))


def seeded_entries():
    """Breaking changes written by independent sub-agents, kept under
    /verif/seeded/<id>/patch.diff."""
    base = os.path.join(VERIF, 'seeded')
    out = []
    for d in sorted(os.listdir(base)) if os.path.isdir(base) else []:
        pd = os.path.join(base, d, 'patch.diff')
        if os.path.exists(pd):
            exp = ['H1', 'H2', 'H3', 'H4', 'H5', 'H6', 'H7']
            out.append(dict(name='seeded:' + d, expect=exp, patch=pd, edits=[]))
    return out


def run_planted(entry, seed, workers, worlds):
    scratch = tempfile.mkdtemp(prefix='verif-planted-')
    try:
        apply_planted(entry, scratch)
        if entry.get('patch'):
            p = subprocess.run(['patch', '-p1', '-s', '-d', scratch, '-i', entry['patch']],
                               capture_output=True, text=True)
            if p.returncode != 0:
                raise RuntimeError('cannot apply %s: %s' % (entry['patch'], p.stdout + p.stderr))
        env = dict(os.environ)
        env.update(VERIF_REPO=scratch, VERIF_SEED=str(seed), VERIF_WORLDS=str(worlds),
                   VERIF_SKIP_SELFTEST='1', VERIF_REPLAY_DIR=os.path.join(scratch, 'replays'),
                   VERIF_EVIDENCE_DIR=os.path.join(scratch, 'evidence'), VERIF_WORKERS=str(workers),
                   VERIF_MAX_REPORTS='2')
        if os.environ.get('VERIF_SELFTEST_FAST'):
            # stop at the first violation and report it unminimised (it is
            # still replayed once before it counts)
            env.update(VERIF_STOP_AT_FIRST='1', VERIF_NO_MINIMISE='1')
        t0 = time.time()
        p = subprocess.run([sys.executable, os.path.join(VERIF, 'run_check.py'), 'C14', '--tier', 'quick'],
                           capture_output=True, text=True, env=env, timeout=1800)
        out = p.stdout
        clauses = re.findall(r'clause=(H\d) observable=(\S+)', out)
        nviol = len(re.findall(r'^VIOLATION property=C14', out, re.M))
        detected = p.returncode == 1 and nviol > 0
        return dict(name=entry['name'], detected=detected, rc=p.returncode, clauses=clauses,
                    expected=entry['expect'], clause_ok=any(c in entry['expect'] for c, _ in clauses),
                    wall_s=round(time.time() - t0, 1),
                    tail=out[-1500:] if not detected else '', err=p.stderr[-800:] if p.returncode == 2 else '')
    finally:
        shutil.rmtree(scratch, ignore_errors=True)


def main(seed, workers, planted, rest):
    sys.path.insert(0, VERIF)
    import run_check as R
    ok = True
    if not planted:
        n = int(os.environ.get('VERIF_DET_SEEDS', 64))
        t0 = time.time()
        st = R.selftest_determinism(seed, n, workers)
        st2 = R.selftest_determinism(seed + 1, max(n // 4, 4), 1)
        print(json.dumps(dict(determinism_16_workers=st, determinism_1_worker=st2,
                              wall_s=round(time.time() - t0, 1)), indent=1))
        return 0 if st.get('ok') and st2.get('ok') else 2
    from sim.planted import P
    names = set(rest)
    results = []
    worlds = int(os.environ.get('VERIF_WORLDS', 1500))
    entries = [e for e in list(P) + seeded_entries() if not names or e['name'] in names]
    part = os.environ.get('VERIF_SELFTEST_PART')        # "k/n": every n-th entry starting at k
    if part:
        k, n = (int(x) for x in part.split('/'))
        entries = entries[k::n]
    for e in entries:
        r = run_planted(e, seed, workers, worlds)
        results.append(r)
        print('%-42s %s rc=%d clauses=%s %.0fs' % (r['name'], 'DETECTED' if r['detected'] else 'MISSED',
                                                   r['rc'], sorted(set(c for c, _ in r['clauses'])), r['wall_s']))
        if not r['detected']:
            print(r['tail'])
            print(r['err'])
            ok = False
        sys.stdout.flush()
    out = os.environ.get('VERIF_SELFTEST_OUT') or os.path.join(VERIF, 'evidence', 'selftest_planted.json')
    os.makedirs(os.path.dirname(out), exist_ok=True)
    with open(out, 'w') as f:
        json.dump(dict(seed=seed, worlds=worlds, results=[{k: v for k, v in r.items() if k not in ('tail', 'err')}
                                                           for r in results]), f, indent=1)
    print('planted: %d/%d detected' % (sum(r['detected'] for r in results), len(results)))
    return 0 if ok else 1
