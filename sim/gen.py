"""Plan generator: models, command lines, operation lists, schedules, faults.

A plan is plain JSON data generated completely before execution from one
`random.Random(run_seed)`; it never depends on results.  See DESIGN.md 4.2.
"""
import math
import random

MU0 = 1.25663706127e-6
PI = 3.141592653589793


def _g(x):
    """Format a float the way a user would type it (repr round-trips)."""
    if isinstance(x, int):
        return str(x)
    r = repr(round(x, 6))
    if r.endswith('.0'):
        r = r[:-2]
    return r


# ------------------------------------------------------------------ geometry

def _wire(n, p1, p2, r, tag=None):
    v = [n] + list(p1) + list(p2) + [r]
    s = ','.join(_g(x) for x in v)
    if tag is not None:
        s = '%d,%s' % (tag, s)
    return '-w', s


class Model:
    """A generated model: argv fragments plus what the generator knows."""

    def __init__(self):
        self.template = None
        self.env = 'free'
        self.geo = []          # list of dicts: kind, nseg, tag(None|int), r
        self.argv_geo = []
        self.argv_env = []
        self.argv_src = []
        self.argv_load = []
        self.features = []
        self.length = 10.0     # characteristic conductor length in m
        self.radii = []
        self.skin_sigma = []
        self.exact = True      # pulse_counts() can be trusted

    def argv(self):
        return (list(self.argv_geo) + list(self.argv_env)
                + list(self.argv_src) + list(self.argv_load))

    def min_pulses(self):
        return sum(max(g['nseg'] - 1, 0) for g in self.geo)

    def pulse_counts(self, ground):
        """Pulses per object as the program will number them: segments - 1,
        plus one per end on the ground plane, plus one per end that meets an
        end of an earlier-tagged object.  Falls back to the lower bound for
        curves and when whole-structure knowledge is missing."""
        order = sorted(self.geo, key=lambda g: g.get('etag', 0))
        seen = []
        for g in order:
            c = max(g['nseg'] - 1, 0)
            if 'p1' in g:
                for e in (g['p1'], g['p2']):
                    if ground and e[2] == 0:
                        c += 1
                    elif any(max(abs(a - b) for a, b in zip(e, q)) < 1e-9 for q in seen):
                        c += 1
                seen += [g['p1'], g['p2']]
            g['npulses'] = c
        return sum(g['npulses'] for g in self.geo)


def gen_geometry(rng, m, ground, force_template=None, near_miss=None, length=None, transforms=True):
    """Pick a geometry template; fills m.geo / m.argv_geo.

    ground: False for free space; True when z must be >= 0 and wires that
    touch z == 0 are grounded."""
    r = rng.choice([0.0005, 0.001, 0.001, 0.002, 0.005, 0.01])
    h = rng.choice([0.0, 0.0, 3.0, 7.5]) if not ground else rng.choice([4.0, 8.0, 12.5])
    L = rng.choice([5.0, 10.0, 21.414285, 16.0, 5.0, 10.0, 0.5, 1.0, 2.0])   # HF ... UHF sized structures
    if length:
        L = length
    n = rng.randrange(4, 11)
    free_t = ['dipole', 'vee', 'tee_free', 'star', 'two_wires', 'tapered',
              'arc', 'helix', 'loop', 'bent3', 'radii2', 'array', 'zigzag', 'mixed', 'array_tail',
              'helix_fed', 'arc_fed', 'seg1_chain']
    gnd_t = ['monopole', 'monopole_ud', 'inv_l', 'tee_gnd', 'dipole', 'vee',
             'two_monopoles', 'arc', 'helix', 'gnd_star', 'tapered', 'two_wires',
             'array', 'zigzag', 'mixed', 'gnd_fan', 'array_tail', 'helix_fed', 'seg1_chain']
    t = rng.choice(gnd_t if ground else free_t)
    if force_template and force_template in (gnd_t if ground else free_t):
        t = force_template
    m.template = t
    m.length = L
    a = []

    def add(kind, nseg, rr, opt, val):
        m.geo.append(dict(kind=kind, nseg=nseg, r=rr, tag=None))
        m.radii.append(rr)
        a.extend([opt, val])

    mul = rng.choice([1] * 8 + [2, 3])       # some models are 2..3 times finer
    if mul > 1:
        m.features.append('fine_segmentation')

    def wire(nseg, p1, p2, rr=r):
        nseg = min(nseg * mul, 30)
        o, v = _wire(nseg, p1, p2, rr)
        add('wire', nseg, rr, o, v)
        m.geo[-1]['p1'] = tuple(float(x) for x in p1)
        m.geo[-1]['p2'] = tuple(float(x) for x in p2)

    if t == 'dipole':
        wire(n, (0, 0, h), (L, 0, h))
    elif t == 'tapered':
        n = max(n, 6)
        wire(n, (0, 0, h), (L, 0, h))
        m.features.append('taper')
    elif t == 'vee':
        h2 = h + rng.choice([2.0, 4.0])
        w1 = ((-L / 2, 0, h), (0, 0, h2))
        w2 = ((0, 0, h2), (L / 2, 0, h))
        if rng.random() < 0.5:
            w2 = (w2[1], w2[0])
        if rng.random() < 0.3:
            w1 = (w1[1], w1[0])
        wire(n, *w1)
        wire(rng.randrange(4, 9), *w2)
    elif t == 'bent3':
        wire(n, (0, 0, h), (L / 3, 0, h))
        wire(rng.randrange(3, 8), (L / 3, 0, h), (L / 3, L / 3, h))
        wire(rng.randrange(3, 8), (L / 3, L / 3, h), (L / 3, L / 3, h + L / 3))
    elif t == 'radii2':
        wire(n, (0, 0, h), (L / 2, 0, h), r)
        wire(rng.randrange(4, 9), (L / 2, 0, h), (L, 0, h), r * rng.choice([0.5, 2.0, 4.0]))
    elif t == 'tee_free':
        wire(n, (0, 0, 0), (0, 0, L / 2))
        wire(rng.randrange(3, 7), (0, 0, L / 2), (L / 3, 0, L / 2))
        wire(rng.randrange(3, 7), (0, 0, L / 2), (-L / 3, 0, L / 2))
    elif t == 'star':
        k = rng.choice([3, 4])
        ends = [(L / 2, 0, h), (-L / 4, L / 3, h), (-L / 4, -L / 3, h), (0, 0, h + L / 3)]
        for i in range(k):
            p = ((0, 0, h), ends[i])
            if rng.random() < 0.4:
                p = (p[1], p[0])
            wire(rng.randrange(3, 7), *p)
    elif t == 'two_wires':
        wire(n, (0, 0, h), (L, 0, h))
        wire(rng.randrange(4, 9), (0, L / 4, h), (L * 0.9, L / 4, h))
    elif t == 'loop':
        s = L / 4
        pts = [(0, 0, h), (s, 0, h), (s, 0, h + s), (0, 0, h + s)]
        for i in range(4):
            wire(rng.randrange(3, 6), pts[i], pts[(i + 1) % 4])
    elif t == 'arc':
        na = rng.randrange(5, 10)
        rad = rng.choice([1.5, 3.0, 5.0])
        a1, a2 = rng.choice([(0, 90), (0, 180), (30, 150), (0, 270)])
        add('arc', na, r, rng.choice(['--arc', '--arc', '-a']), ','.join(_g(x) for x in (na, rad, a1, a2, r)))
        m.length = rad * 3
        if ground:
            a.extend(['--geo-translate', '1,0,0,%s' % _g(rad + rng.choice([2.0, 5.0]))])
        elif rng.random() < 0.5:
            a.extend(['--geo-rotate', '1,%s,0,%s' % (_g(rng.choice([30, 45, 90])), _g(rng.choice([0, 15])))])
            m.features.append('rotate')
    elif t == 'helix':
        nh = rng.randrange(10, 19)
        ln = rng.choice([1.0, 2.0])
        turn = ln / rng.choice([1.5, 2.0]) * rng.choice([1, -1])
        rr = rng.choice([0.001, 0.002])
        hr = rng.choice([0.1, 0.2])
        v = [nh, ln, turn, rr, hr, hr]
        if rng.random() < 0.3:
            v += [hr * 0.6, hr * 0.6]
        add('helix', nh, rr, rng.choice(['--helix', '--helix', '-H']), ','.join(_g(x) for x in v))
        m.length = 2 * PI * hr * abs(ln / turn) * 1.5 + ln
        if ground and rng.random() < 0.6:
            a.extend(['--geo-translate', '1,0,0,%s' % _g(rng.choice([0.5, 2.0]))])
        if rng.random() < 0.3:
            a.extend(['--geo-scale', _g(rng.choice([2.0, 5.0]))])
            m.features.append('scale')
    elif t == 'monopole':
        wire(n, (0, 0, 0), (0, 0, L / 2))
    elif t == 'monopole_ud':
        wire(n, (0, 0, L / 2), (0, 0, 0))
    elif t == 'inv_l':
        wire(n, (0, 0, 0), (0, 0, L / 3))
        wire(rng.randrange(4, 9), (0, 0, L / 3), (L / 2, 0, L / 3))
    elif t == 'tee_gnd':
        wire(n, (0, 0, 0), (0, 0, L / 3))
        wire(rng.randrange(3, 7), (0, 0, L / 3), (L / 3, 0, L / 3))
        wire(rng.randrange(3, 7), (-L / 3, 0, L / 3), (0, 0, L / 3))
    elif t == 'two_monopoles':
        wire(n, (0, 0, 0), (0, 0, L / 2))
        wire(rng.randrange(4, 9), (L / 3, 0, 0), (L / 3, 0, L / 2.5))
    elif t == 'array':
        # 5..8 parallel elements of decreasing length (unconnected)
        k = rng.randrange(5, 9)
        for i in range(k):
            li = L * (1 - 0.07 * i)
            wire(rng.randrange(3, 7), (i * L / 6, -li / 2, h), (i * L / 6, li / 2, h))
    elif t in ('helix_fed', 'arc_fed'):
        # a curve joined to a straight feed wire (the wire has the lower tag,
        # as in the project's helix examples); the joint may be fuzzy: the
        # ends agree to within the matching tolerance but not exactly
        fuzz = rng.choice([0.0, 0.0, 1.0]) * rng.choice([1, -1])
        rr = rng.choice([0.0005, 0.001])
        if t == 'helix_fed':
            hr = rng.choice([0.1125, 0.2])
            z0 = rng.choice([0.0239, 0.1])
            nh = rng.randrange(12, 25)
            ln = rng.choice([0.6, 1.2]) * rng.choice([1, -1])
            turn = 0.15 * rng.choice([1, -1])
            seg = hr * 2 * PI / 8            # rough length of one helix segment
            d = fuzz * 2e-4 * min(seg, z0 / 3)
            # start point of the helix: (hr, 0, 0) for positive length, (0, hr, 0) otherwise
            start = (hr, 0.0) if ln > 0 else (0.0, hr)
            a.extend(['-w', '1,3,0,0,0,%s,%s,%s,%s' % (_g(start[0] + d), _g(start[1]), _g(z0), _g(rr))])
            m.geo.append(dict(kind='wire', nseg=3, r=rr, tag=1))
            a.extend(['--helix', '2,%d,%s,%s,%s,%s,%s' % (nh, _g(ln), _g(turn), _g(0.002), _g(hr), _g(hr))])
            m.geo.append(dict(kind='helix', nseg=nh, r=0.002, tag=2))
            a.extend(['--geo-translate', '1,0,0,%s,2' % _g(z0)])
            m.radii += [rr, 0.002]
            m.length = 2 * PI * hr * abs(ln / turn) + abs(ln)
        else:
            R = rng.choice([1.5, 3.0])
            na = rng.randrange(5, 10)
            a1, a2 = rng.choice([(0, 90), (30, 150), (0, 180)])
            import math
            sx, sz = R * math.cos(math.radians(a1)), R * math.sin(math.radians(a1))
            d = fuzz * 2e-4 * min(R * math.radians(a2 - a1) / na, 0.5)
            a.extend(['-w', '1,4,%s,0,%s,%s,0,%s,%s' % (_g(sx + 2.0), _g(sz), _g(sx + d), _g(sz), _g(rr))])
            m.geo.append(dict(kind='wire', nseg=4, r=rr, tag=1))
            a.extend(['--arc', '2,%d,%s,%s,%s,%s' % (na, _g(R), _g(a1), _g(a2), _g(rr))])
            m.geo.append(dict(kind='arc', nseg=na, r=rr, tag=2))
            m.radii += [rr, rr]
            m.length = R * 3
        if fuzz:
            m.features.append('fuzzy_junction')
        m.features.append('curve_joined_to_wire')
        m.exact = False
    elif t == 'seg1_chain':
        # a conductor built from single-segment (or 1..2 segment) wires joined
        # end to end - the way tapered wires, arcs and helices are emulated
        k = rng.randrange(5, 11)
        only1 = rng.random() < 0.6
        x = 0.0
        for i in range(k):
            ns = 1 if only1 else rng.choice([1, 1, 2])
            x2 = x + L / k
            ends = ((x, 0, h), (x2, 0, h)) if rng.random() < 0.85 else ((x2, 0, h), (x, 0, h))
            o, v = _wire(ns, ends[0], ends[1], r)
            add('wire', ns, r, o, v)
            m.geo[-1]['p1'] = tuple(float(c) for c in ends[0])
            m.geo[-1]['p2'] = tuple(float(c) for c in ends[1])
            x = x2
        m.features.append('single_segment_wires')
    elif t == 'array_tail':
        # 2..4 unconnected parallel elements and a tail (or two) whose END
        # is joined to the tip of one of them
        k = rng.randrange(2, 5)
        ne = rng.randrange(4, 9)
        for i in range(k):
            wire(ne, (i * L / 5, -L / 2, h + 1), (i * L / 5, L / 2, h + 1))
        for j in range(rng.choice([1, 1, 2])):
            i = rng.randrange(k)
            tip = (i * L / 5, L / 2 if j == 0 else -L / 2, h + 1)
            far = (tip[0] + 0.3, tip[1], tip[2] + L / 6)
            ends = (far, tip) if rng.random() < 0.7 else (tip, far)
            wire(rng.randrange(3, 6), *ends)
        m.features.append('tail')
    elif t == 'zigzag':
        # a chain of 5..7 connected wires
        k = rng.randrange(5, 8)
        p = (0.0, 0.0, h)
        for i in range(k):
            q = (p[0] + L / 6, (L / 8 if i % 2 == 0 else -L / 8), h + (0.5 if i % 3 == 0 else 0.0))
            w = (p, q) if rng.random() < 0.7 else (q, p)
            wire(rng.randrange(3, 6), *w)
            p = q
    elif t == 'mixed':
        # a straight wire, an arc and a helix in one model (unconnected)
        wire(n, (0, -L / 2, h + 6), (0, L / 2, h + 6))
        na = rng.randrange(4, 8)
        add('arc', na, r, '--arc', ','.join(_g(x) for x in (na, 2.0, 20, 160, r)))
        nh = rng.randrange(9, 13)
        add('helix', nh, 0.001, '--helix', ','.join(_g(x) for x in (nh, 1.0, 0.5, 0.001, 0.1, 0.1)))
        # arcs and helices are created first by main: give them tags that
        # keep them apart from the wire, and lift them off the ground
        a.extend(['--geo-translate', '9,3,0,%s,%d' % (_g(h + 3), 1)])
        a.extend(['--geo-translate', '9,-3,0,%s,%d' % (_g(h + 1), 2)])
        m.exact = False
    elif t == 'gnd_fan':
        # several grounded radiators fanning out from one ground point is not
        # allowed (one wire per ground point): use separate feet
        k = rng.randrange(3, 6)
        for i in range(k):
            wire(rng.randrange(3, 7), (i * 1.5, 0, 0), (i * 1.5 + 1.0, 0, L / 3))
    elif t == 'gnd_star':
        wire(n, (0, 0, 0), (0, 0, L / 3))
        wire(rng.randrange(3, 6), (0, 0, L / 3), (L / 4, 0, L / 4))
        wire(rng.randrange(3, 6), (0, 0, L / 3), (-L / 4, 0, L / 4))
        wire(rng.randrange(3, 6), (0, 0, L / 3), (0, L / 4, L / 4))

    # explicit / permuted tags on wires (arcs and helices are created first
    # by main, so leave those automatic)
    wires = [g for g in m.geo if g['kind'] == 'wire']
    # fuzzy junctions between straight wires: move one joined end by a
    # fraction of the matching tolerance (1e-3 of the shortest segment)
    # near_miss = (where, factor): forced by the tolerance floor
    nm_j = near_miss[1] if near_miss and near_miss[0] == 'junction' else None
    nm_g = near_miss[1] if near_miss and near_miss[0] == 'ground' else None
    if len(wires) >= 2 and all('p1' in g for g in wires) and (rng.random() < 0.12 or nm_j):
        import math
        minseg = min(math.dist(g['p1'], g['p2']) / g['nseg'] for g in wires)
        wi = [i for i, x in enumerate(a) if x == '-w']
        for j in range(1, len(wires)):
            hit = None
            for end in ('p1', 'p2'):
                if any(wires[j][end] in (wires[k]['p1'], wires[k]['p2']) for k in range(j)):
                    hit = end
                    break
            if hit and len(wi) == len(wires):
                parts = a[wi[j] + 1].split(',')
                pos = 1 + (0 if hit == 'p1' else 3)
                # mostly inside the tolerance; sometimes a near miss just
                # outside it (0.9 .. 40 tolerances): the ends then are, and
                # stay, unconnected - at every frequency and on every path
                fz = rng.choice([0.2, 0.2, 0.2, 0.9, 1.2, 3.0, 12.0, 40.0])
                if nm_j:
                    fz = nm_j
                d = fz * 1e-3 * minseg * rng.choice([1, -1])
                parts[pos] = repr(round(float(parts[pos]) + d, 9))
                a[wi[j] + 1] = ','.join(parts)
                m.features.append('fuzzy_junction' if fz < 1 else 'near_miss_junction')
                if fz >= 0.9:
                    m.exact = False
                break
    # near-miss ground contact: an end on the ground plane lifted by a
    # fraction / a small multiple of the tolerance
    if ground and wires and all('p1' in g for g in wires) and (rng.random() < 0.1 or nm_g):
        import math
        minseg = min(math.dist(g['p1'], g['p2']) / g['nseg'] for g in wires)
        wi = [i for i, x in enumerate(a) if x == '-w']
        for j, g in enumerate(wires):
            end = 'p1' if g['p1'][2] == 0 else 'p2' if g['p2'][2] == 0 else None
            if end and len(wi) == len(wires):
                parts = a[wi[j] + 1].split(',')
                pos = 1 + (0 if end == 'p1' else 3) + 2
                fz = rng.choice([0.2, 0.2, 0.9, 1.2, 3.0, 12.0, 40.0])
                if nm_g:
                    fz = nm_g
                parts[pos] = repr(round(fz * 1e-3 * minseg, 9))
                a[wi[j] + 1] = ','.join(parts)
                m.features.append('fuzzy_ground_contact' if fz < 1 else 'near_miss_ground_contact')
                if fz >= 0.9:
                    m.exact = False
                break
    if len(wires) >= 2 and t not in ('helix_fed', 'arc_fed') and rng.random() < 0.35:
        tags = list(range(1, len(wires) + 1))
        if rng.random() < 0.7:
            rng.shuffle(tags)
        else:
            tags = sorted(rng.sample(range(1, 12), len(wires)))
            if rng.random() < 0.5:
                rng.shuffle(tags)
        k = 0
        for i in range(0, len(a), 2):
            if a[i] == '-w':
                a[i + 1] = '%d,%s' % (tags[k], a[i + 1])
                wires[k]['tag'] = tags[k]
                k += 1
        m.features.append('explicit_tags')
    # effective tags (as compute_tags assigns them)
    explicit = [g['tag'] for g in m.geo if g['tag'] is not None]
    nxt = max(explicit) + 1 if explicit else 1
    # main() creates arcs first, then helices, then wires: automatic tags
    # follow that order
    for kind in ('arc', 'helix', 'wire'):
        for g in m.geo:
            if g['kind'] != kind:
                continue
            if g['tag'] is None:
                g['etag'] = nxt
                nxt += 1
            else:
                g['etag'] = g['tag']
    if t == 'tapered':
        tg = m.geo[0]['etag']
        v = '%d,%d' % (tg, rng.choice([1, 2, 3, 1, 2, 3, 0]))
        r2 = rng.random()
        if r2 < 0.25:
            v += ',%s' % _g(rng.choice([0.05, 0.1, 0.2]))
        elif r2 < 0.4:
            v += ',%s,%s' % (_g(rng.choice([0.05, 0.1])), _g(L / m.geo[0]['nseg'] * rng.choice([2.0, 3.0])))
        a.extend(['--taper-wire', v])
    elif wires and rng.random() < 0.08 and wires[0]['nseg'] >= 6:
        a.extend(['--taper-wire', '%d,%d' % (wires[0]['etag'], rng.choice([1, 2, 3]))])
        m.features.append('taper')
    if transforms:
        gen_transforms(rng, m, a, ground, t)
    m.argv_geo = a


def gen_transforms(rng, m, a, ground, t):
    """0..3 further geometry transformations.  Sort keys are drawn from a
    small set so that ties between a rotation and a translation occur (the
    program then has to order them itself), per-tag and whole-structure
    forms are mixed.  Over ground only motions that keep z are used."""
    if rng.random() > 0.3:
        return
    n = rng.choice([1, 2, 2, 3])
    keys = [rng.choice([1, 1, 2, 3]) for _ in range(n)]
    if n >= 2 and rng.random() < 0.5:
        keys[1] = keys[0]                      # forced key tie
        m.features.append('transform_key_tie')
    kinds = ['rotate', 'translate']
    rng.shuffle(kinds)
    for i in range(n):
        kind = kinds[i % 2] if i < 2 else rng.choice(['rotate', 'translate', 'scale'])
        tag = ''
        if m.geo and rng.random() < 0.25 and not ground:
            tag = ',%d' % rng.choice(m.geo)['etag']
            m.exact = False
        if kind == 'rotate':
            if ground:
                v = '%s,0,0,%s' % (_g(keys[i]), _g(rng.choice([10, 45, 90, 200])))
            else:
                v = '%s,%s,%s,%s' % (_g(keys[i]), _g(rng.choice([0, 30, 90])), _g(rng.choice([0, 45])),
                                      _g(rng.choice([10, 90, 135])))
            a.extend(['--geo-rotate', v + tag])
            m.features.append('rotate')
        elif kind == 'translate':
            z = 0 if ground else rng.choice([0, 0, 2, -1.5])
            v = '%s,%s,%s,%s' % (_g(keys[i]), _g(rng.choice([1, -3, 7.5])), _g(rng.choice([0, 2, -4])), _g(z))
            a.extend(['--geo-translate', v + tag])
            m.features.append('translate')
        elif not ground and t not in ('helix',):
            a.extend(['--geo-scale', _g(rng.choice([0.5, 2.0, 3.0])) + tag])
            m.features.append('scale')



def gen_env(rng, m, env):
    m.env = env
    a = []
    if env == 'ideal':
        a += ['--medium=0,0,0']
    elif env == 'real1':
        a += ['--medium=%s,%s,0' % (_g(rng.choice([13, 5, 80, 3, 1])), _g(rng.choice([0.005, 0.001, 0.03, 5.0, 1e7])))]
    elif env in ('real2', 'real3', 'real4'):
        k = int(env[-1])
        c = rng.choice([5.0, 12.0, 30.0])
        ideal_last = rng.random() < 0.15
        for i in range(k):
            eps = rng.choice([13, 5, 80, 10])
            sig = rng.choice([0.005, 0.001, 0.03])
            hgt = 0 if i == 0 else -rng.choice([0.0, 0.5, 2.0])
            if ideal_last and i == k - 1:
                eps, sig, hgt = 0, 0, 0        # a perfectly conducting outer region
                m.features.append('ideal_medium_last')
            v = '--medium=%s,%s,%s' % (_g(eps), _g(sig), _g(hgt))
            if i < k - 1 and rng.random() < 0.88:
                v += ',%s' % _g(c * (i + 1))
            elif i < k - 1:
                # valid but unusual: no interface coordinate (defaults to 1e6)
                m.features.append('medium_coord_omitted')
            a.append(v)
        circ = rng.random() < 0.5
        if rng.random() < 0.4:
            a += ['--radial-count=%d' % rng.choice([8, 16, 32]),
                  '--radial-radius=%s' % _g(rng.choice([0.001, 0.002]))]
            m.features.append('radials')
            circ = True
        if circ:
            a += ['--boundary=circular']
        m.features.append('multi_media')
    m.argv_env = a


def gen_sources(rng, m):
    a = []
    k = rng.choice([1, 1, 1, 2, 3, 3, 5])
    npl = m.min_pulses()
    if m.exact:
        npl = m.pulse_counts(m.env != 'free')
    used = set()
    for i in range(k):
        if rng.random() < 0.5 or len(m.geo) == 0:
            p = rng.randrange(1, max(npl, 1) + 1)
            key = ('abs', p)
            s = '%d' % p
        else:
            cand = [g_ for g_ in m.geo if (g_.get('npulses', g_['nseg'] - 1) if m.exact else g_['nseg'] - 1) >= 1]
            if not cand:
                continue
            g = rng.choice(cand)
            p = rng.randrange(1, max(g.get('npulses', g['nseg'] - 1) if m.exact else g['nseg'] - 1, 1) + 1)
            key = ('geo', p, g['etag'])
            s = '%d,%d' % (p, g['etag'])
        if key in used:
            continue
        used.add(key)
        a.append('--excitation-pulse=%s' % s)
    if not a:
        a.append('--excitation-pulse=%d' % rng.randrange(1, max(npl, 1) + 1))
    nsrc = len(a)
    volts = []
    if nsrc > 1 or rng.random() < 0.3:
        for i in range(nsrc):
            v = rng.choice(['1', '1+0.5j', '2', '0.5-1j', '10', '1j'])
            volts.append('--excitation-voltage=%s' % v)
    m.argv_src = a + volts
    if nsrc > 1:
        m.features.append('multi_source')


LOAD_KINDS = ['impedance', 'rlc', 'trap', 'laplace', 'skin_c', 'skin_r', 'insulation']


def gen_loads(rng, m, kinds):
    """kinds: list of load kinds to include."""
    a = []
    lumped = []   # in the order main() numbers them: load, rlc, trap, laplace
    for kind in ('impedance', 'rlc', 'trap', 'laplace'):
        cnt = kinds.count(kind)
        for _ in range(cnt):
            if kind == 'impedance':
                z = rng.choice(['50+3j', '100', '10-200j', '0+75j', '1000+0j', '5'])
                if rng.random() < 0.2:
                    a.extend(['-l', z])
                else:
                    a.append('--load=%s' % z)
            elif kind == 'rlc':
                v = rng.choice(['10,1e-6,1e-10', '0,2e-6,', '50,,', ',,1e-10', '5,1e-6,', '1,,5e-11'])
                a.append('--rlc-load=%s' % v)
            elif kind == 'trap':
                v = rng.choice(['1,1e-6,1e-10', '0.5,2.5e-6,5e-11', '2,5e-7,2e-10'])
                a.append('--trap-load=%s' % v)
            else:
                b, aa = rng.choice([('1,2e-6', '1,0'), ('0,1e-6', '1,1e-9'),
                                    ('50', '1'), ('10,1e-6,1e-15', '1,1e-8,0')])
                a.append('--laplace-load-b=%s' % b)
                a.append('--laplace-load-a=%s' % aa)
            lumped.append(kind)
    npl = m.min_pulses()
    if m.exact:
        npl = m.pulse_counts(m.env != 'free')
    ngeo = len(m.geo)
    for i, kind in enumerate(lumped):
        n = i + 1
        form = rng.choice(['abs', 'abs', 'geo', 'geo', 'all_geo', 'all_geo', 'all'])
        if form == 'abs':
            for p in rng.sample(range(1, max(npl, 1) + 1), min(rng.choice([1, 1, 2]), max(npl, 1))):
                a.append('--attach-load=%d,%d' % (n, p))
        elif form == 'geo':
            cand = [g_ for g_ in m.geo if (g_.get('npulses', g_['nseg'] - 1) if m.exact else g_['nseg'] - 1) >= 1]
            g = rng.choice(cand or m.geo)
            p = rng.randrange(1, max(g.get('npulses', g['nseg'] - 1) if m.exact else g['nseg'] - 1, 1) + 1)
            a.append('--attach-load=%d,%d,%d' % (n, p, g['etag']))
        elif form == 'all_geo':
            k = rng.randrange(1, ngeo + 1)
            gs = rng.sample(m.geo, k)
            for g in gs:
                a.append('--attach-load=%d,all,%d' % (n, g['etag']))
            if 2 <= k < ngeo:
                m.features.append('geo_all_ge2_not_all')
            if rng.random() < 0.3:
                p = rng.randrange(1, max(npl, 1) + 1)
                a.append('--attach-load=%d,%d' % (n, p))
        else:
            a.append('--attach-load=%d,all' % n)
        m.features.append('load_' + kind)
        m.features.append('attach_' + form)
    for kind in ('skin_c', 'skin_r'):
        if kind in kinds:
            sigma = rng.choice([5.8e7, 3.5e7, 1e6, 1e5, 1e7])
            whole = rng.random() < 0.5 or ngeo == 1
            if kind == 'skin_c':
                v = '--skin-effect-conductivity=%s' % _g(sigma)
            else:
                v = '--skin-effect-resistivity=%s' % repr(1.0 / sigma)
            if whole:
                a.append(v)
            else:
                gs = rng.sample(m.geo, rng.randrange(1, ngeo + 1))
                for g in gs:
                    a.append('%s,%d' % (v, g['etag']))
                m.features.append('skin_per_tag')
            m.skin_sigma.append(sigma)
            m.features.append('load_' + kind)
            break       # only one skin-effect load per geo object is allowed
    if 'insulation' in kinds:
        rmax = max(m.radii) if m.radii else 0.001
        rad = rmax * rng.choice([1.5, 2.0, 3.0])
        eps = rng.choice([2.3, 3.0, 1.0, 4.5])
        v = '--insulation-load=%s,%s' % (_g(rad), _g(eps))
        if rng.random() < 0.5 or ngeo == 1:
            a.append(v)
        else:
            gs = rng.sample(m.geo, rng.randrange(1, ngeo + 1))
            for g in gs:
                a.append('%s,%d' % (v, g['etag']))
            m.features.append('insulation_per_tag')
        m.features.append('load_insulation')
    m.argv_load = a


def gen_model(rng, env=None, kinds=None, template=None, near_miss=None, length=None, transforms=True):
    m = Model()
    if env is None:
        env = rng.choice(['free', 'free', 'ideal', 'ideal', 'real1', 'real2', 'real3', 'real3', 'real4'][:rng.choice([7, 7, 9])])
    gen_geometry(rng, m, ground=(env != 'free'), force_template=template, near_miss=near_miss, length=length,
                 transforms=transforms)
    gen_env(rng, m, env)
    gen_sources(rng, m)
    if kinds is None:
        kinds = []
        r = rng.random()
        if r < 0.25:
            kinds = []
        elif r < 0.7:
            kinds = [rng.choice(LOAD_KINDS)]
        else:
            kinds = rng.sample(LOAD_KINDS, rng.choice([2, 2, 3]))
            if rng.random() < 0.3:
                kinds.append(rng.choice(['impedance', 'rlc']))
    gen_loads(rng, m, kinds)
    return m


VARIANT_KINDS = ['scale', 'same', 'load_value', 'voltage', 'translate', 'rotate', 'drop_loads', 'taper',
                 'segments', 'radius', 'media_form', 'toggle_ground', 'other_ground', 'reattach', 'taper_limits',
                 'scale_band', 'swap_wires', 'repeat_option']


def variant_model(rng, m, force=None):
    """A sibling of model m: the same antenna with one small change.  Worlds
    that run siblings at the *same* frequencies in one interpreter are what
    shows state kept outside a single object (module-level caches keyed too
    coarsely)."""
    import copy
    v = copy.deepcopy(m)
    how = rng.choice(['scale', 'scale', 'same', 'load_value', 'voltage', 'translate', 'rotate', 'drop_loads',
                      'taper', 'segments', 'radius', 'media_form', 'media_form',
                      'toggle_ground', 'toggle_ground', 'other_ground', 'reattach', 'reattach', 'taper_limits',
                      'scale_band', 'swap_wires', 'repeat_option'])
    if force:
        how = force
    elif any(x == '--taper-wire' for x in v.argv_geo) and rng.random() < 0.4:
        how = 'taper_limits'
    if how == 'taper_limits':
        # the same taper with / without its optional min and max limits
        ti = [i for i, x in enumerate(v.argv_geo) if x == '--taper-wire']
        if ti:
            i = ti[0] + 1
            parts = v.argv_geo[i].split(',')
            if len(parts) > 2:
                v.argv_geo[i] = ','.join(parts[:2])
            else:
                v.argv_geo[i] = ','.join(parts + [_g(rng.choice([0.05, 0.1, 0.2]))] +
                                         ([_g(rng.choice([0.5, 1.0, 3.0]))] if rng.random() < 0.5 else []))
        else:
            how = rng.choice(['voltage', 'segments', 'radius', 'same'])
    if how == 'scale_band':
        # the same design scaled to another band: all dimensions times s,
        # all frequencies divided by s (electrically identical)
        if m.env != 'free' or any(x == '--geo-scale' for x in v.argv_geo):
            how = 'same'
        else:
            sc = rng.choice([0.5, 2.0, 0.25])
            v.argv_geo += ['--geo-scale', _g(sc)]
            v.pool_scale = sc
    if how == 'swap_wires':
        # the same option values in another order: two untagged -w options
        # exchanged (order defines the numbering of wires and pulses)
        wi = [i for i, x in enumerate(v.argv_geo) if x == '-w']
        untag = [i for i in wi if len(v.argv_geo[i + 1].split(',')) == 8]
        pair = None
        for a_ in untag:
            for b_ in untag:
                if a_ < b_ and v.argv_geo[a_ + 1] != v.argv_geo[b_ + 1] \
                        and v.argv_geo[a_ + 1].split(',')[0] == v.argv_geo[b_ + 1].split(',')[0]:
                    pair = (a_, b_)
                    break
            if pair:
                break
        if pair is None and len(untag) >= 2:
            pair = (untag[0], untag[1])
        if pair:
            a_, b_ = pair
            v.argv_geo[a_ + 1], v.argv_geo[b_ + 1] = v.argv_geo[b_ + 1], v.argv_geo[a_ + 1]
            v.exact = False
        else:
            how = 'same'
    if how == 'repeat_option':
        # one repeatable option given twice / once (multiplicity matters)
        if m.env == 'free':
            have = [i for i, x in enumerate(v.argv_geo) if x == '--geo-scale']
            if have:
                v.argv_geo += ['--geo-scale', v.argv_geo[have[0] + 1]]
            else:
                v.argv_geo += ['--geo-scale', '2', '--geo-scale', '0.5']
        else:
            v.argv_geo += ['--geo-rotate', '7,0,0,90', '--geo-rotate', '7,0,0,90']
    if how == 'move_middle_wire':
        wi = [i for i, x in enumerate(v.argv_geo) if x == '-w']
        if len(wi) >= 5:
            j = wi[len(wi) // 2] + 1
            parts = v.argv_geo[j].split(',')
            off = 1 if len(parts) == 9 else 0
            dx = 0.12 * (v.length or 1.0)
            for pos in (off + 1, off + 4):
                parts[pos] = _g(float(parts[pos]) + dx)
            v.argv_geo[j] = ','.join(parts)
        else:
            how = 'same'
    if 'tail' in m.features and rng.random() < 0.5 and not force:
        how = 'reattach'
    if how == 'reattach':
        # same wires, same segment counts, but one wire end joined to a
        # different wire end (the topology changes, the counts do not)
        wi = [i for i, x in enumerate(v.argv_geo) if x == '-w']
        wires = [g for g in v.geo if g['kind'] == 'wire' and 'p1' in g]
        done = False
        if len(wi) == len(wires) and len(wires) >= 3:
            order = list(range(1, len(wires)))
            rng.shuffle(order)
            for j in order:
                for end in ('p2', 'p1'):
                    e = wires[j][end]
                    partners = [k for k in range(len(wires)) if k != j and e in (wires[k]['p1'], wires[k]['p2'])]
                    if not partners:
                        continue
                    # candidate new attachment points: ends of other wires
                    cands = [q for k in range(len(wires)) if k != j and k not in partners
                             for q in (wires[k]['p1'], wires[k]['p2'])
                             if q != wires[j]['p1'] and q != wires[j]['p2']]
                    if not cands:
                        continue
                    q = rng.choice(cands)
                    parts = v.argv_geo[wi[j] + 1].split(',')
                    off = 1 if len(parts) == 9 else 0
                    pos = off + 1 + (0 if end == 'p1' else 3)
                    parts[pos:pos + 3] = [_g(c) for c in q]
                    v.argv_geo[wi[j] + 1] = ','.join(parts)
                    wires[j][end] = tuple(float(c) for c in q)
                    done = True
                    break
                if done:
                    break
        if not done:
            how = rng.choice(['voltage', 'segments', 'radius', 'same'])
        else:
            v.exact = False
    if how in ('toggle_ground', 'other_ground'):
        # the same structure in another environment
        zs = [e[2] for g in v.geo for e in (g.get('p1'), g.get('p2')) if e]
        clear = bool(zs) and min(zs) > 0 and all('p1' in g for g in v.geo)
        if how == 'other_ground' and v.env != 'free':
            v.argv_env = [rng.choice(['--medium=0,0,0', '--medium=13,0.005,0', '--medium=5,0.001,0'])]
            v.env = 'ideal' if v.argv_env[0].endswith('=0,0,0') else 'real1'
        elif v.env == 'free' and clear and not any(x.startswith('--geo-') for x in v.argv_geo):
            v.argv_env = [rng.choice(['--medium=0,0,0', '--medium=0,0,0', '--medium=13,0.005,0'])]
            v.env = 'ideal' if v.argv_env[0].endswith('=0,0,0') else 'real1'
        elif v.env != 'free' and clear:
            v.argv_env = []
            v.env = 'free'
        else:
            how = rng.choice(['voltage', 'segments', 'radius', 'same'])
    if how == 'media_form':
        # the same kind of environment written in another form: interface
        # coordinate dropped or added, other boundary, radials on/off
        idx = [i for i, x in enumerate(v.argv_env) if x.startswith('--medium=')]
        if len(idx) >= 2:
            i = idx[0]
            parts = v.argv_env[i].split('=', 1)[1].split(',')
            if len(parts) == 4:
                v.argv_env[i] = '--medium=' + ','.join(parts[:3])
            else:
                v.argv_env[i] = '--medium=' + ','.join(parts + [_g(rng.choice([5.0, 20.0]))])
            if rng.random() < 0.3:
                v.argv_env = [x for x in v.argv_env if not x.startswith('--radial')]
        else:
            how = rng.choice(['voltage', 'segments', 'radius', 'same'])
    ground = m.env != 'free'
    if how == 'scale':
        have = [i for i, x in enumerate(v.argv_geo) if x == '--geo-scale']
        if have:
            i = have[0]
            if rng.random() < 0.5:
                del v.argv_geo[i:i + 2]
            else:
                v.argv_geo[i + 1] = _g(rng.choice([0.5, 3.0, 4.0]))
        elif not ground:
            v.argv_geo += ['--geo-scale', _g(rng.choice([2.0, 3.0, 0.5]))]
        else:
            how = rng.choice(['voltage', 'segments', 'radius', 'same'])
    if how == 'load_value':
        done = False
        for i, x in enumerate(v.argv_load):
            if x.startswith('--load='):
                v.argv_load[i] = '--load=%s' % rng.choice(['75+10j', '1-1j'])
                done = True
                break
            if x.startswith('--skin-effect-conductivity='):
                rest = x.split('=', 1)[1].split(',')
                rest[0] = _g(float(rest[0]) * 10)
                v.argv_load[i] = '--skin-effect-conductivity=' + ','.join(rest)
                done = True
                break
            if x.startswith('--insulation-load='):
                rest = x.split('=', 1)[1].split(',')
                rest[1] = _g(float(rest[1]) + 1.5)
                v.argv_load[i] = '--insulation-load=' + ','.join(rest)
                done = True
                break
        if not done:
            how = rng.choice(['voltage', 'segments', 'radius', 'same'])
    if how == 'voltage':
        n = sum(1 for x in v.argv_src if x.startswith('--excitation-pulse'))
        v.argv_src = [x for x in v.argv_src if not x.startswith('--excitation-voltage')]
        v.argv_src += ['--excitation-voltage=%s' % rng.choice(['3', '1-2j'])] * max(n, 1)
    elif how == 'translate' and not ground:
        v.argv_geo += ['--geo-translate', '5,%s,0,%s' % (_g(rng.choice([1, 4])), _g(rng.choice([0, 2])))]
    elif how == 'rotate' and not ground:
        v.argv_geo += ['--geo-rotate', '5,0,%s,%s' % (_g(rng.choice([0, 20])), _g(rng.choice([15, 90])))]
    elif how == 'drop_loads':
        v.argv_load = []
        v.skin_sigma = []
    elif how in ('taper', 'segments', 'radius'):
        wi = [i for i, x in enumerate(v.argv_geo) if x == '-w']
        if wi:
            i = wi[0] + 1
            parts = v.argv_geo[i].split(',')
            off = 1 if len(parts) == 9 else 0
            if how == 'taper':
                have = [k for k, x in enumerate(v.argv_geo) if x == '--taper-wire']
                if have:
                    del v.argv_geo[have[0]:have[0] + 2]
                elif int(parts[off]) >= 6:
                    v.argv_geo += ['--taper-wire', '%d,%d' % (v.geo[0]['etag'], rng.choice([1, 2, 3]))]
            elif how == 'segments':
                # more segments keep every pulse index that was valid
                parts[off] = str(int(parts[off]) + rng.choice([1, 2]))
                v.argv_geo[i] = ','.join(parts)
            else:
                # thinner wire keeps an insulation radius valid
                parts[-1] = _g(float(parts[-1]) * rng.choice([0.5, 0.8]))
                v.argv_geo[i] = ','.join(parts)
    v.features = list(v.features) + ['variant_' + how]
    return v


def _units(argv):
    """Index groups: '--x=y' alone, '-w value' / '--opt value' pairs."""
    units = []
    i = 0
    while i < len(argv):
        a = argv[i]
        nxt = argv[i + 1] if i + 1 < len(argv) else None
        if a.startswith('-') and '=' not in a and nxt is not None and a != '-T' and not _looks_like_flag(nxt):
            units.append([i, i + 1])
            i += 2
        else:
            units.append([i])
            i += 1
    return units


def _looks_like_flag(x):
    if not x.startswith('-'):
        return False
    try:
        float(x.split(',')[0])
        return False
    except ValueError:
        return True


def fuzz_variant(rng, m):
    """A sibling produced by 1-2 random edits at the level of the option
    list (perturb one number, delete / duplicate / swap option units): covers
    single changes nobody thought of listing.  Many results are rejected by
    the program; those die identically on both sides and cost nothing."""
    import copy
    v = copy.deepcopy(m)
    argv = v.argv()
    for _ in range(rng.choice([1, 1, 2])):
        units = _units(argv)
        if not units:
            break
        kind = rng.choice(['number', 'number', 'number', 'delete', 'duplicate', 'swap', 'drop_field', 'add_field'])
        u = rng.choice(units)
        if kind == 'number':
            vi = u[-1]
            txt = argv[vi]
            head, sep, val = txt.partition('=') if txt.startswith('--') and '=' in txt else ('', '', txt)
            fields = val.split(',')
            idx = [k for k, f in enumerate(fields) if _is_num(f)]
            if not idx:
                continue
            k = rng.choice(idx)
            x = float(fields[k])
            how = rng.choice(['double', 'half', 'plus1', 'minus1', 'negate', 'tiny', 'zero'])
            y = {'double': x * 2, 'half': x / 2, 'plus1': x + 1, 'minus1': x - 1, 'negate': -x,
                 'tiny': x * (1 + 1e-6), 'zero': 0.0}[how]
            if fields[k].lstrip('+-').isdigit() and float(y).is_integer():
                fields[k] = str(int(y))
            else:
                fields[k] = repr(round(y, 10))
            argv[vi] = head + sep + ','.join(fields)
        elif kind in ('drop_field', 'add_field'):
            # the shorter / longer form of a comma list (optional trailing
            # parameters: taper limits, tags, coordinates, end radii ...)
            vi = u[-1]
            txt = argv[vi]
            head, sep, val = txt.partition('=') if txt.startswith('--') and '=' in txt else ('', '', txt)
            fields = val.split(',')
            if kind == 'drop_field' and len(fields) > 1:
                fields = fields[:-1]
            elif kind == 'add_field':
                fields = fields + [rng.choice(['1', '2', '0.05', '3.0'])]
            argv[vi] = head + sep + ','.join(fields)
        elif kind == 'delete':
            argv = [a for i, a in enumerate(argv) if i not in u]
        elif kind == 'duplicate':
            argv = argv + [argv[i] for i in u]
        else:
            w = rng.choice(units)
            if w is not u and len(w) == len(u):
                for a_, b_ in zip(u, w):
                    argv[a_], argv[b_] = argv[b_], argv[a_]
    v.argv_geo, v.argv_env, v.argv_src, v.argv_load = argv, [], [], []
    v.exact = False
    v.features = list(v.features) + ['variant_fuzz']
    return v


def _is_num(f):
    try:
        float(f)
        return True
    except ValueError:
        return False


# --------------------------------------------------------------- frequencies

PROJECT_FREQUENCIES = [7, 7.15, 13.8, 14, 14.05, 28.074, 28.5, 29.98, 148, 299.8, 450, 600, 1000,
                       149.9, 2.998, 59.96, 1.0, 100.0, 10.0, 300.0]


def gen_pool(rng, m, k=None):
    """2..5 frequencies, >= 1 % apart; biased to straddle the small-radius
    threshold (radius = 1e-4 wavelength) and the skin-effect asymptote
    switch (|kr| = 110) of the model at hand."""
    if k is None:
        k = rng.choice([2, 2, 3, 3, 4, 5])
    base = 150.0 / max(m.length, 1.0)
    base = min(max(base, 2.0), 900.0)
    cands = []
    probes = []
    if m.radii and rng.random() < 0.35:
        r = rng.choice(m.radii)
        fs = 299.8 * 1e-4 / r          # radius == 1e-4 * wavelength
        if 0.5 <= fs <= 400:
            cands += [fs * 0.9, fs * 1.1]
            probes.append('srm_flip')
            if rng.random() < 0.4:
                # ... and the frequency at which radius and threshold agree
                # to the last bit or so (0.001 m: 29.98 MHz)
                cands.insert(rng.randrange(len(cands) + 1), float(repr(round(fs, 9))))
                probes.append('srm_exact')
    if m.skin_sigma and m.radii and rng.random() < 0.5:
        r = rng.choice(m.radii)
        s = m.skin_sigma[0]
        fk = (110.0 / r) ** 2 / (2 * PI * MU0 * s) / 1e6
        if 0.5 <= fk <= 400:
            cands += [fk * 0.85, fk * 1.2]
            probes.append('skin_asymptote_flip')
    wide = rng.random() < 0.12
    while len(cands) < k:
        mult = rng.choice([0.5, 0.7, 0.9, 1.0, 1.1, 1.3, 1.5, 2.0])
        if wide:
            # electrically tiny ... large structures (badly conditioned
            # matrices, guards and fall-backs live at the extremes)
            mult = rng.choice([1e-4, 1e-3, 5e-3, 0.02, 0.1, 0.25, 1.0, 4.0, 8.0])
        f = base * mult * rng.uniform(0.97, 1.03)
        f = round(f, rng.choice([1, 2, 3, 6]))
        if f <= 0:
            continue
        if all(abs(f - c) / c >= 0.01 for c in cands):
            cands.append(f)
    cands = [float(repr(round(c, 6))) for c in cands[:max(k, len(cands))]]
    rng.shuffle(cands)
    cands = cands[:5]
    if rng.random() < 0.15 and not wide:
        # round numbers, as people type them: band edges and whole MHz next
        # to fractional neighbours in the same MHz (7.15 -> 7, 14.35 -> 14),
        # and sometimes typed without a decimal point (an int, not a float)
        n = max(1, int(round(base * rng.choice([0.7, 1.0, 1.0, 1.3]))))
        band = [n, n + rng.choice([0.15, 0.35, 0.25, 0.5, 0.5]), n + rng.choice([0.05, 0.1, 0.25, 0.3]),
                n + 1, n - rng.choice([0.1, 0.25, 0.5])]
        band = [b for b in band if b > 0.3]
        head = band[:2]
        rng.shuffle(head)
        rest = band[2:]
        rng.shuffle(rest)
        cands = (head + rest)[:max(k, 2)]
        if rng.random() < 0.5:
            rng.shuffle(cands)
        cands = [float(repr(round(c, 6))) for c in cands]
        probes.append('round_frequencies')
        if rng.random() < 0.5:
            cands = [int(c) if c == int(c) else c for c in cands]
            probes.append('int_typed_frequency')
    if rng.random() < 0.12 and not wide:
        # the frequencies of the project's own example inputs (test/*.pym):
        # values at which derived quantities are special - 299.8 MHz makes the
        # wavelength exactly 1 with the program's constant - and which users
        # therefore really type.  Half of the time it is the first frequency.
        near = sorted(PROJECT_FREQUENCIES, key=lambda x: abs(math.log(x / base)))[:rng.choice([1, 2])]
        for x in near:
            if x not in cands:
                cands.insert(0 if rng.random() < 0.5 else rng.randrange(len(cands) + 1), x)
        cands = cands[:5]
        probes.append('project_frequency')
    if rng.random() < 0.2:
        # a near-duplicate of one pool entry: 'unchanged within tolerance'
        # short-cuts only show between frequencies that are almost equal
        d = rng.choice([1e-3, 1e-4, 2e-5, 5e-6, 1e-6, 2e-7]) * rng.choice([1, -1])
        src = rng.randrange(len(cands))
        nd = float(repr(round(cands[src] * (1 + d), 10)))
        if len(cands) >= 5:
            cands[(src + 1) % len(cands)] = nd
        else:
            cands.insert(rng.randrange(len(cands) + 1), nd)
        probes.append('near_duplicate_frequency')
    return cands, probes


def gen_far(rng):
    zen = [rng.choice([0, 10, 45, 90]), rng.choice([10, 15, 30, 45]), rng.randrange(1, 5)]
    azi = [rng.choice([0, 0, 90, 180]), rng.choice([30, 45, 90]), rng.randrange(1, 4)]
    r = rng.random()
    if r < 0.06:
        zen, azi = [0, 10, 10], [0, 10, 37]            # the program's default grid
    elif r < 0.12:
        zen = [rng.choice([0, -90, 85]), rng.choice([5, 7.5, 0.1]), rng.randrange(5, 20)]
        azi = [rng.choice([0, 350, -45]), rng.choice([10, 120, 0.5]), rng.randrange(1, 6)]
    elif r < 0.2:
        # descending grids: from the horizon upwards, clockwise
        if rng.random() < 0.7:
            zen = [rng.choice([90, 80, 45]), -rng.choice([10, 15, 30, 45]), rng.randrange(2, 6)]
        if rng.random() < 0.5:
            azi = [rng.choice([360, 180, 90]), -rng.choice([30, 45, 90]), rng.randrange(2, 5)]
    pwr = rng.choice([None, None, 100.0, 1.5, 1e-6, 1e6])
    dist = rng.choice([0, 0, 1000.0, 25.0, 1e-3, 1e7])
    return [zen, azi, pwr, dist]


def twin_far(rng, far):
    """A far-field request that differs from `far` in exactly one parameter:
    keys that are too coarse (rounded, hashed, truncated) only collide
    between near-identical requests.  hash(-1) == hash(-2) in CPython, so
    that pair is included on purpose."""
    import copy
    a = copy.deepcopy(far)
    b = copy.deepcopy(far)
    which = rng.choice([0, 1])          # zenith or azimuth triple
    pos = rng.choice([0, 1])            # initial or increment
    how = rng.choice(['minus12', 'minus12', 'plus_small', 'plus_small', 'sign', 'int_float'])
    if how == 'minus12':
        a[which][pos] = -1
        b[which][pos] = -2
    elif how == 'plus_small':
        # down to differences far below any sensible tolerance: a request
        # that is 'the same within tolerance' is still another request
        b[which][pos] = a[which][pos] + rng.choice([1, 0.5, 1e-3, 1e-5, 1e-7, 1e-9, 1e-12])
    elif how == 'sign':
        b[which][pos] = -a[which][pos] if a[which][pos] else 5
    else:
        b[which][pos] = float(a[which][pos]) + 0.0
        b[which][2] = a[which][2] + 1
    return a, b


def gen_near(rng, m):
    L = m.length
    start = [rng.choice([1.0, -2.0, L / 2]), rng.choice([1.0, 3.0]), rng.choice([1.5, 5.0, L])]
    inc = [rng.choice([1.0, 0.5, 0.1, 0.3]), rng.choice([1.0, 2.0, 0.7]), rng.choice([1.0, 3.0, 0.2, 0.1])]
    cnt = rng.choice([[1, 1, 1], [2, 1, 1], [1, 2, 1], [1, 1, 3], [2, 2, 1], [2, 1, 2], [2, 2, 2],
                      [3, 1, 1], [1, 3, 2], [4, 2, 1], [1, 1, 5]])
    if rng.random() < 0.08:
        cnt = rng.choice([[3, 3, 3], [10, 1, 1], [2, 5, 2], [1, 1, 20], [4, 4, 4], [2, 2, 10], [5, 5, 2]])
    if rng.random() < 0.2:
        inc[rng.randrange(3)] *= -1
    if rng.random() < 0.15:
        start[2] = rng.choice([0.0, 0.25])
    pwr = rng.choice([None, None, 100.0, 0.5])
    return [start, inc, cnt, pwr]


# ------------------------------------------------------------------ API task

REPORT_OPTS = ['far-field', 'far-field-absolute', 'near-field']


class ApiState:
    """Reference validity model of one live Mininec object (30 lines)."""

    def __init__(self):
        self.f = 0
        self.computed = False
        self.far = None
        self.near = None
        self.ncomp = 0

    def apply(self, op):
        """Returns True if the op is executed (preconditions hold)."""
        k = op[0]
        if k == 'SET_F':
            self.f = op[1]
            self.computed = False
            self.far = None
            self.near = None
            return True
        if k == 'COMPUTE':
            # a recompute invalidates fields computed from older currents
            # only in the sense of the caller; results are equal, fields stay
            self.computed = True
            self.ncomp += 1
            return True
        if k == 'FAR':
            if not self.computed:
                return False
            self.far = op[1]
            return True
        if k == 'NEAR':
            if not self.computed:
                return False
            self.near = op[1]
            return True
        if k == 'FAR_BAD':
            if self.computed:
                self.far = None
            return self.computed
        if k == 'NEAR_BAD':
            if self.computed:
                self.near = None
            return self.computed
        return True     # observations are always executable

    def can(self, op):
        if op[0] in ('FAR', 'NEAR', 'FAR_BAD', 'NEAR_BAD'):
            return self.computed
        return True

    def point(self):
        return (self.f, self.computed, self.far, self.near)


def gen_api_ops(rng, npool, nfar, nnear, maxops):
    """A biased random op list: frequency changes are placed between
    observations of the same configuration, fields are requested in both
    orders, repeated, and with changed parameters."""
    ops = []
    st = ApiState()
    if rng.random() < 0.25:
        ops.append(['OBS_REPORT', []])      # before the first compute
    if rng.random() < 0.2:
        ops.append(['OBS_CMDLINE'])
    if rng.random() < 0.1:
        ops.append(['OBS_BASIC', rng.choice(['9', '9', '12', '13'])])
    target = rng.randrange(6, maxops + 1)
    while len(ops) < target:
        r = rng.random()
        if not st.computed:
            if r < 0.12:
                op = ['SET_F', rng.randrange(npool)]
            elif r < 0.2:
                op = ['OBS_REPORT', []]
            elif r < 0.23:
                op = ['REPORT_EARLY']
            elif r < 0.28:
                op = ['COMPUTE', 'steps']
            elif r < 0.33 and (nfar or nnear):
                # premature field request: raises or uses stale currents
                if nfar and (not nnear or rng.random() < 0.5):
                    op = ['FAR', rng.randrange(nfar), 'x']
                else:
                    op = ['NEAR', rng.randrange(nnear), 'x']
            else:
                op = ['COMPUTE']
        else:
            if r < 0.17:
                op = ['SET_F', rng.randrange(npool)]
            elif r < 0.25:
                op = ['COMPUTE']
            elif r < 0.42 and nfar:
                op = ['FAR', rng.randrange(nfar), rng.choice(['', '', 'r', 'p', 'rp', 'm', 'm'])]
            elif r < 0.57 and nnear:
                op = ['NEAR', rng.randrange(nnear), rng.choice(['', '', 'r', 'ra'])]
            elif r < 0.75:
                op = ['OBS_NUM']
            elif r < 0.92:
                opts = []
                if st.far is not None:
                    if rng.random() < 0.8:
                        opts.append('far-field')
                    if rng.random() < 0.4:
                        opts.append('far-field-absolute')
                if st.near is not None and rng.random() < 0.8:
                    opts.append('near-field')
                if st.far is not None and st.near is not None and rng.random() < 0.4:
                    opts = ['far-field', 'far-field-absolute', 'near-field']
                op = ['OBS_REPORT', opts]
            elif r < 0.95:
                op = ['OBS_CMDLINE']
            elif r < 0.975:
                op = ['OBS_BASIC', rng.choice(['9', '9', '12', '13'])]
            elif r < 0.984:
                op = ['OBS_MISC', rng.randrange(1000)]
            elif r < 0.99 and (st.far is None or st.near is None):
                op = ['REPORT_EARLY']
            else:
                # a malformed field request that raises inside the program
                op = [rng.choice(['NEAR_BAD', 'FAR_BAD']), rng.randrange(7)]
        if op[0] in ('SET_F', 'COMPUTE', 'FAR', 'NEAR') and rng.random() < 0.05 \
                and not (len(op) > 2 and op[2] == 'x'):
            # Ctrl-C at a seeded call event inside the operation, then the
            # caller issues it again
            op = op + [{'interrupt': int(10 ** rng.uniform(0, 3.4)), 'exc': rng.choice(['kbd', 'mem'])}]
        st.apply(op)
        ops.append(op)
        if op[0] == 'SET_F' and len(op) == 2 and rng.random() < 0.12:
            # the same assignment once more (a caller sets the frequency and
            # a helper it calls sets it again): a no-op that must stay one
            ops.append(list(op))
            st.apply(op)
    # make sure the history ends observable
    if not st.computed:
        ops.append(['COMPUTE'])
        st.apply(['COMPUTE'])
    ops.append(['OBS_NUM'])
    opts = []
    if st.far is not None:
        opts.append('far-field')
    if st.near is not None:
        opts.append('near-field')
    ops.append(['OBS_REPORT', opts])
    return ops


def gen_api_task(rng, maxops=24, env=None, kinds=None, model=None, pool=None):
    m = model or gen_model(rng, env=env, kinds=kinds)
    probes = []
    if pool is None:
        pool, probes = gen_pool(rng, m)
    fars = [gen_far(rng) for _ in range(rng.choice([1, 1, 2, 3]))]
    if rng.random() < 0.3:
        # near-identical requests
        fars[:2] = list(twin_far(rng, fars[0]))
    nears = [gen_near(rng, m) for _ in range(rng.choice([0, 1, 1, 2]))]
    if nears and rng.random() < 0.25:
        import copy
        tw = copy.deepcopy(nears[0])
        k = rng.randrange(3)
        if rng.random() < 0.3 and len(set(tw[2])) > 1:
            # the same scan line moved to another axis: same origin, same
            # step, same number of points - another request
            c = list(tw[2])
            while c == list(tw[2]):
                rng.shuffle(c)
            tw[2] = c
        else:
            v = tw[rng.choice([0, 1])]
            d = rng.choice([1.0, 0.5, 1e-3, 1e-3, 1e-5, 1e-7, 1e-9, 1e-12])
            v[k] = v[k] + d if d >= 1e-3 else v[k] * (1 + d)
        nears = [nears[0], tw]
    ops = gen_api_ops(rng, len(pool), len(fars), len(nears), maxops)
    return dict(kind='api', builder='cli', argv=m.argv(), pool=pool, fars=fars,
                nears=nears, ops=ops, template=m.template, env=m.env,
                features=sorted(set(m.features)), probes=probes,
                npulses=m.min_pulses() + 2 * len(m.geo), _model=m,
                drop_results=rng.random() < 0.4)


# ------------------------------------------------------------------ CLI task

def field_args(rng, m, force=None):
    """Output selection for one command line."""
    a = []
    sel = force if force is not None else rng.choice(
        [[], [], ['far-field'], ['far-field-absolute'], ['near-field'], ['none'],
         ['far-field', 'near-field'], ['far-field', 'far-field-absolute'],
         ['far-field', 'far-field-absolute', 'near-field'], ['near-field', 'far-field-absolute']])
    for o in sel:
        a += ['--option', o]
    far = gen_far(rng)
    if rng.random() < 0.93:
        a += ['--theta=%s' % ','.join(_g(x) for x in far[0]),
              '--phi=%s' % ','.join(_g(x) for x in far[1])]
    if 'far-field-absolute' in sel or rng.random() < 0.15:
        if far[2]:
            a += ['--ff-power=%s' % _g(far[2])]
        if far[3]:
            a += ['--ff-distance=%s' % _g(far[3])]
    if 'near-field' in sel or (not sel and rng.random() < 0.3):
        nr = gen_near(rng, m)
        a += ['--near-field=%s' % ','.join(_g(x) for x in nr[0] + nr[1] + nr[2])]
        if nr[3]:
            a += ['--nf-power=%s' % _g(nr[3])]
    return a


def respell(rng, argv):
    """The same command line written differently: other spellings of the
    frequency option, option units in another order (the relative order of
    repeated options is kept, which is all the program's semantics depend
    on), an explicit default."""
    a = list(argv)
    r = rng.random()
    if a[:1] == ['-f'] and len(a) > 1:
        if r < 0.15:
            a[0:2] = ['--frequency=' + a[1]]
        elif r < 0.3:
            a[0:2] = ['--frequency', a[1]]
        elif r < 0.4:
            a[0:2] = ['-f' + a[1]]
    if rng.random() < 0.25:
        units = _units(a)
        groups = [[a[i] for i in u] for u in units]
        names = [g[0].split('=')[0] for g in groups]
        order = list(range(len(groups)))
        rng.shuffle(order)
        # keep the relative order of units that carry the same option name
        byname = {}
        for idx in sorted(order):
            byname.setdefault(names[idx], []).append(idx)
        taken = {n: 0 for n in byname}
        out = []
        for idx in order:
            n = names[idx]
            src = byname[n][taken[n]]
            taken[n] += 1
            out += groups[src]
        a = out
    if rng.random() < 0.1 and not any(x.startswith('--boundary') for x in a) and any(x.startswith('--medium') for x in a):
        a += ['--boundary=linear']
    return a


BAD_ARGVS = [
    ['-w', '10,0,0,0,1,0,0'],                              # rc 23 wire params
    ['--helix', '40,0,.3,1e-3,0.11,0.11'],                 # rc 23
    ['--medium=0,0,1'],                                    # ValueError path / rc 23
    ['--excitation-pulse=99'],                             # rc 23 invalid source
    ['--load=50', '--attach-load=2,1'],                    # rc 23
    ['--load=50'],                                         # not all loads used
    ['--frequency', 'abc'],                                # argparse SystemExit
    ['--option', 'bogus'],                                 # argparse SystemExit
    ['--no-such-option'],                                  # argparse SystemExit
    ['--near-field=1,1,1,1,1,1,1,1'],                      # rc 23
    ['--theta=1,2'],                                       # rc 23
    ['-f', '0'],                                           # raises ZeroDivisionError
    ['--output-basic-input', 'B.in', '--load=5', '--attach-load=1,1',
     '--rlc-load=1,1e-6,', '--attach-load=2,2'],           # NotImplementedError
    ['--skin-effect-conductivity=1e5,7'],                  # rc 23 invalid tag
    ['--insulation-load=0.0001,2'],                        # rc 23 radius too small
    ['-w', '4,0,0,0,1,0,0,0.001', '-w', '4,0,0,0,1,0,0,0.001', '--taper-wire', '9,1'],
    # every early-exit path of main() is a different way of leaving state behind
    ['--arc', '5,1,0,90'],                                 # arc parameter count
    ['--arc', 'x,5,1,0,90,0.001'],                         # arc tag
    ['--arc', '2,1,0,90,0.001'],                           # too few segments
    ['--helix', 'aaa,40,0,.3,1e-3,0.11,0.11'],             # helix tag
    ['--helix', '40,0.5'],                                 # helix parameter count
    ['-w', 'q,4,0,0,0,1,0,0,0.001'],                       # wire tag
    ['-w', '4,0,0,0,1,0,0,abc'],                           # wire value
    ['-w', '1,4,0,0,0,1,0,0,0.001', '-w', '1,4,0,0,1,1,0,1,0.001'],   # duplicate tags
    ['--geo-rotate', '1,2'],                               # transformation parameter count
    ['--geo-rotate', '1,a,0,0'],
    ['--geo-translate', '1,0,0'],
    ['--geo-translate', '1,0,0,1,9'],                      # unknown tag
    ['--geo-scale', '2,3,4'],
    ['--geo-scale', 'x'],
    ['--geo-scale', '2,7'],
    ['--taper-wire', '1'],
    ['--taper-wire', '1,x'],
    ['--taper-wire', '1,7'],
    ['--arc', '5,1,0,90,0.001', '--taper-wire', '1,1'],    # taper on something that is no wire
    ['--excitation-pulse=1', '--excitation-pulse=2', '--excitation-voltage=1'],
    ['--medium=1,2'],
    ['--medium=a,b,c'],
    ['--medium=13,0.005,1'],                               # first medium height
    ['--medium=0,0,0', '--medium=13,0.005,0'],             # ideal ground with a successor
    ['--medium=13,0.005,0', '--radial-count=8', '--radial-radius=0.001'],   # radials on a single medium
    ['--excitation-pulse=a'],
    ['--excitation-pulse=1,2,3'],
    ['--rlc-load=a,b,c', '--attach-load=1,1'],
    ['--trap-load=1,x,1e-10', '--attach-load=1,1'],
    ['--laplace-load-a=x', '--attach-load=1,1'],
    ['--laplace-load-b=1,y', '--attach-load=1,1'],
    ['--laplace-load-a=0', '--laplace-load-b=1', '--attach-load=1,1'],
    ['--load=50', '--attach-load=1'],
    ['--load=50', '--attach-load=1,x'],
    ['--load=50', '--attach-load=1,99'],
    ['--skin-effect-conductivity=1,2,3'],
    ['--skin-effect-resistivity=x'],
    ['--skin-effect-resistivity=1e-8,9'],
    ['--insulation-load=0.002'],
    ['--insulation-load=0.002,3,9'],
    ['--phi=0,10'],
    ['--phi=a,b,c'],
    ['--theta=a,b,c'],
    ['--near-field=1,1,1,1,1,1,a,1,1'],
    ['--near-field=x,1,1,1,1,1,1,1,1'],
    ['--near-field=1,1,1,y,1,1,1,1,1'],
    ['-w', '4,0,0,-1,0,0,5,0.001', '--medium=0,0,0'],      # wire below the ground
    ['--near-field=1,1,1,1,1,1,1,1,1', '--option', 'far-field-absolute', '--ff-distance=0'],
]


def gen_cli_task(rng, maxops=8, env=None, kinds=None, model=None, pool=None):
    ops = []
    if model is not None:
        models = [model]
    else:
        models = [gen_model(rng, env=env, kinds=kinds)]
    pools = {}
    if pool is not None:
        pools[0] = (list(pool), [])
    if rng.random() < 0.4:
        if rng.random() < 0.6:
            # a sibling command line at the same frequencies
            models.append((fuzz_variant if rng.random() < 0.35 else variant_model)(rng, models[0]))
            pools[1] = 'same'
        else:
            models.append(gen_model(rng, env=env, kinds=kinds))
    cmds = []
    for i, m in enumerate(models):
        if pools.get(i) == 'same':
            pool, probes = sibling_pool(m, cmds[0]['pool']), []
        elif i in pools:
            pool, probes = pools[i]
        else:
            pool, probes = gen_pool(rng, m, k=2)
        fa = field_args(rng, m)
        argv = ['-f', repr(pool[0])] + m.argv() + fa
        if rng.random() < 0.7:
            argv += ['--output-cmdline', 'opt%d.txt' % i]
        if rng.random() < 0.25:
            argv += ['--output-basic-input', 'basic%d.in' % i]
            if rng.random() < 0.5:
                argv += ['--mininec-version', rng.choice(['9', '12', '13'])]
        if rng.random() < 0.15:
            argv += ['-T']
        argv = respell(rng, argv)
        cmds.append(dict(argv=argv, model=m, pool=pool, probes=probes))
    target = rng.randrange(3, maxops + 1)
    feats = set()
    probes = []
    for c in cmds:
        feats.update(c['model'].features)
        probes += c['probes']
    while len(ops) < target:
        r = rng.random()
        c = rng.choice(cmds)
        if r < 0.5:
            op = ['RUN', c['argv']]
            if '--output-cmdline' in c['argv'] and rng.random() < 0.08:
                p = c['argv'][c['argv'].index('--output-cmdline') + 1]
                op.append({'torn': {p: rng.randrange(0, 40)}})
            elif rng.random() < 0.06:
                op.append({'interrupt': int(10 ** rng.uniform(0.5, 4.2)), 'exc': rng.choice(['kbd', 'mem'])})
            ops.append(op)
        elif r < 0.72:
            m = c['model']
            f0 = c['pool'][0]
            steps = rng.choice([2, 2, 3, 4])
            inc = rng.choice([0.5, 1.0, 0.25, f0 * 0.1, -0.3, f0 * 0.05, -f0 * 0.07, -0.5, -0.25, -0.1])
            inc = float(repr(round(inc, 6)))
            if f0 + (steps - 1) * inc <= 0.2:
                inc = abs(inc)
            if c['probes'] and len(c['pool']) > 1:
                inc = float(repr(round(c['pool'][1] - f0, 10)))
                steps = 2
            elif rng.random() < 0.15:
                # very fine sweep
                inc = float(repr(round(f0 * rng.choice([1e-4, 2e-5, 5e-6, 1e-6]) * rng.choice([1, 1, -1]), 10)))
                steps = rng.choice([2, 3, 5])
            base = [x for x in c['argv'] if x != '-T']
            ops.append(['SWEEP', base, inc, steps, rng.choice([0, 0, 1, 2, 3])])
        elif r < 0.9:
            ops.append(['RUN_BAD', rng.choice(BAD_ARGVS)])
        else:
            ops.append(['RESTART'])
    # every command line is run at least twice in the task
    for c in cmds:
        n = sum(1 for o in ops if o[0] == 'RUN' and o[1] is c['argv'])
        for _ in range(max(0, 2 - n)):
            ops.insert(rng.randrange(len(ops) + 1), ['RUN', c['argv']])
    ops.append(['RUN', cmds[0]['argv']])
    return dict(kind='cli', _model=models[0], pool=list(cmds[0]['pool']), ops=[_copy_op(o) for o in ops],
                template='+'.join(c['model'].template for c in cmds),
                env='+'.join(c['model'].env for c in cmds),
                features=sorted(feats), probes=probes,
                npulses=max(c['model'].min_pulses() + 2 * len(c['model'].geo) for c in cmds))


def _copy_op(o):
    r = []
    for x in o:
        if isinstance(x, list):
            r.append(list(x))
        elif isinstance(x, dict):
            r.append({k: dict(v) if isinstance(v, dict) else v for k, v in x.items()})
        else:
            r.append(x)
    return r


# --------------------------------------------------------------------- plans

def env_side(rng, perturbed, side):
    """Environment of one side (history or oracle) of a world."""
    if not perturbed:
        return dict(hash=dict(mode='fwd', seed=0),
                    clock=dict(epoch=1.7e9, seed=1, p_fwd=0, p_back=0, p_stall=0),
                    junk=[0, 0], poison=None)
    return dict(
        hash=dict(mode='fwd' if side == 'hist' else 'rev', seed=rng.randrange(1 << 30)),
        clock=dict(epoch=rng.uniform(1.0e9, 2.1e9), seed=rng.randrange(1 << 30),
                   p_fwd=rng.choice([0, 0.1, 0.3]), p_back=rng.choice([0, 0.1, 0.3]),
                   p_stall=rng.choice([0, 0.1, 0.3])),
        junk=[rng.randrange(1 << 30), rng.choice([0, 3, 17, 120, 1000])],
        poison='nan' if side == 'hist' else '1e300',
        host=rng.choice(['shack', 'node-17.example.org', 'localhost', 'oe1rsa-pc']),
        pid=rng.randrange(2, 4000000),
        rng_seed=rng.randrange(1 << 31),
        cpus=rng.choice([1, 2, 4, 16, 64]),
        mem_pages=rng.choice([2048, 16384, 262144, 4194304, 33554432]),
        environ={'TZ': rng.choice(['UTC', 'Europe/Vienna', 'Asia/Kolkata', 'Pacific/Chatham']),
                 'COLUMNS': str(rng.choice([20, 80, 200])),
                 'LANG': rng.choice(['C', 'de_AT.UTF-8', 'tr_TR.UTF-8']),
                 'LC_NUMERIC': rng.choice(['C', 'de_DE.UTF-8']),
                 'USER': rng.choice(['root', 'oe1rsa', 'nobody']),
                 'HOME': rng.choice(['/', '/root', '/nonexistent']),
                 '_cwd': rng.choice(['/', '/tmp', '/usr', '/home/oe1rsa/antennas/20 m', '/srv/x/y/z/w'])},
        # variables that programs and libraries commonly consult: each present
        # in about half of the processes
        environ_extra={k: v for k, v in (
            ('NO_COLOR', '1'), ('TERM', rng.choice(['dumb', 'xterm-256color', 'vt100'])), ('DEBUG', '1'),
            ('VERBOSE', '1'), ('LINES', str(rng.choice([24, 50]))), ('PWD', rng.choice(['/', '/somewhere/else'])),
            ('LOGNAME', 'oe1rsa'), ('HOSTNAME', 'shack'), ('SHELL', '/bin/zsh'), ('EDITOR', 'vi'),
            ('LC_ALL', rng.choice(['C', 'de_DE.UTF-8', 'tr_TR.UTF-8'])), ('LC_TIME', 'de_AT.UTF-8'),
            ('PYTHONUNBUFFERED', '1'), ('NUMPY_EXPERIMENTAL_ARRAY_FUNCTION', '0'), ('CI', 'true'),
            ('SOURCE_DATE_EPOCH', str(rng.randrange(10 ** 9, 2 * 10 ** 9))), ('MININEC_DEBUG', '1'),
            ('MPLBACKEND', 'Agg'), ('DISPLAY', ':0')) if rng.random() < 0.5},
        # when the cyclic garbage collector runs is not the program's business
        gc=rng.choice([None, 'disabled', 'eager', 'between_ops']),
        # ... nor is what standard input is connected to
        stdin=rng.choice([None, 'null', 'data', 'data', 'idle', 'eof', 'file']),
        # ... nor how the caller collects the output (one stream for the life
        # of the process, or a new stream object per invocation)
        capture=rng.choice(['tap', 'tap', 'redirect']) if side == 'hist' else 'tap')


def gen_plan(run_seed, tier='quick', env=None, kinds=None, shape=None):
    rng = random.Random(run_seed)
    if shape is None and env is None and rng.random() < (0.004 if tier == 'quick' else 0.02):
        return long_plan(run_seed, tier)
    if shape is None and env is None and rng.random() < (0.001 if tier == 'quick' else 0.006):
        return big_plan(run_seed, tier)
    perturbed = rng.random() < 0.7
    maxops = 24 if tier == 'quick' else 48
    if shape is None:
        shape = rng.choice(['api', 'api', 'api', 'cli', 'cli', 'api+api', 'api+cli', 'api+api+cli', 'direct'])
    tasks = []
    if shape == 'api+api' and env is None and rng.random() < 0.3:
        shape = 'direct+direct'
    elif shape == 'api+cli' and env is None and rng.random() < 0.2:
        shape = 'direct+cli'
    shared = rng.choice(['shared_ideal', 'shared_ideal', 'ideal', 'shared_real', 'shared_real'])
    siblings = rng.random() < 0.5
    first = None
    for kind in shape.split('+'):
        model = pool = None
        if siblings and first is not None and first.get('_model') is not None:
            # a sibling of the first task's model, at the same frequencies
            model = (fuzz_variant if rng.random() < 0.35 else variant_model)(rng, first['_model'])
            pool = sibling_pool(model, first['pool'])
        if kind == 'direct':
            g = shared if rng.random() < 0.8 else rng.choice([None, 'ideal'])
            t = gen_direct_task(rng, ground=g, maxops=maxops)
        elif kind == 'api':
            t = gen_api_task(rng, maxops=maxops, env=env, kinds=kinds, model=model, pool=pool)
        else:
            t = gen_cli_task(rng, maxops=8 if tier == 'quick' else 14, env=env, kinds=kinds,
                             model=model, pool=pool)
        if first is None:
            first = t
        tasks.append(t)
    for t in tasks:
        t.pop('_model', None)
    # schedule: seeded interleaving; switches are forced right after SET_F
    # and right after a FAR/NEAR of another task with probability 1/2
    remaining = [len(t['ops']) for t in tasks]
    pos = [0] * len(tasks)
    sched = []
    cur = rng.randrange(len(tasks))
    while any(remaining):
        live = [i for i, r in enumerate(remaining) if r]
        if cur not in live:
            cur = rng.choice(live)
        else:
            prev = tasks[cur]['ops'][pos[cur] - 1][0] if pos[cur] else None
            p = 0.5 if prev in ('SET_F', 'FAR', 'NEAR', 'RUN_BAD') else 0.25
            if len(live) > 1 and rng.random() < p:
                cur = rng.choice([i for i in live if i != cur])
        sched.append(cur)
        pos[cur] += 1
        remaining[cur] -= 1
    disk = {}
    if perturbed and rng.random() < 0.5:
        for t in tasks:
            if t['kind'] != 'cli':
                continue
            for o in t['ops']:
                if o[0] in ('RUN', 'SWEEP'):
                    for flag in ('--output-cmdline', '--output-basic-input'):
                        if flag in o[1]:
                            p = o[1][o[1].index(flag) + 1]
                            if rng.random() < 0.6:
                                disk[p] = 'STALE ' * rng.choice([1, 50, 400]) + '\n'
    return dict(version=1, run_seed=run_seed, tier=tier,
                config='perturbed' if perturbed else 'plain',
                hist=env_side(rng, perturbed, 'hist'),
                orac=env_side(rng, perturbed, 'orac'),
                disk=disk, tasks=tasks, schedule=sched)


# ------------------------------------------------------------ coverage floor

FLOOR_KINDS = [None] + LOAD_KINDS
FLOOR_ENVS = ['free', 'ideal', 'real']


def floor_plans(base_seed, tier='quick'):
    """One short API world and one short sweep world per {load kind} x
    {free space, ideal ground, real ground}: every frequency-dependent
    mechanism is exercised with a frequency change and both fields even if
    the random draw is unlucky."""
    plans = []
    i = 0
    for kind in FLOOR_KINDS:
        for env in FLOOR_ENVS:
            seed = base_seed * 1000003 + 900000 + i
            i += 1
            rng = random.Random(seed)
            e = env if env != 'real' else rng.choice(['real1', 'real2', 'real3'])
            kinds = [kind] if kind else []
            m = gen_model(rng, env=e, kinds=kinds)
            pool, probes = gen_pool(rng, m, k=2)
            far = gen_far(rng)
            far2 = gen_far(rng)
            near = gen_near(rng, m)
            ops = [['OBS_REPORT', []], ['COMPUTE'], ['FAR', 0], ['NEAR', 0], ['OBS_NUM'],
                   ['SET_F', 1], ['COMPUTE'], ['NEAR', 0], ['FAR', 1], ['FAR', 0], ['OBS_NUM'],
                   ['OBS_REPORT', ['far-field', 'near-field']], ['OBS_BASIC', '9'], ['OBS_MISC', 7],
                   ['COMPUTE'], ['OBS_NUM'],
                   ['SET_F', 0], ['COMPUTE'], ['FAR', 0], ['OBS_NUM'],
                   ['OBS_REPORT', ['far-field', 'far-field-absolute']], ['OBS_CMDLINE']]
            api = dict(kind='api', builder='cli', argv=m.argv(), pool=pool[:2], fars=[far, far2],
                       nears=[near], ops=ops, template=m.template, env=m.env,
                       features=sorted(set(m.features)), probes=probes,
                       npulses=m.min_pulses() + 2 * len(m.geo))
            argv = ['-f', repr(pool[0])] + m.argv() + field_args(rng, m, force=['far-field', 'near-field'])
            argv += ['--output-cmdline', 'floor.txt']
            inc = float(repr(round(pool[1] - pool[0], 6)))
            cli = dict(kind='cli', ops=[['RUN', list(argv)], ['SWEEP', list(argv), inc, 2],
                                        ['RUN_BAD', ['--excitation-pulse=99']],
                                        ['RUN', list(argv)], ['SWEEP', list(argv), inc, 3 if pool[0] + 2 * inc > 0.2 else 2],
                                        ['RUN', list(argv)]],
                       template=m.template, env=m.env, features=sorted(set(m.features)),
                       probes=probes, npulses=api['npulses'])
            for t in (api, cli):
                plans.append(dict(version=1, run_seed=seed, tier=tier, config='perturbed', floor=True,
                                  hist=env_side(rng, True, 'hist'), orac=env_side(rng, True, 'orac'),
                                  disk={'floor.txt': 'STALE ' * 500} if t is cli else {},
                                  tasks=[t], schedule=[0] * len(t['ops'])))
    # long histories: many repetitions on a tiny model
    for j, (kind, count) in enumerate([('api', 70), ('api', 140), ('api', 140), ('api', 270), ('api', 1100),
                                       ('sweep', 66), ('sweep', 260), ('runs', 70), ('runs', 300)]):
        plans.append(long_plan(base_seed * 1000003 + 950000 + j, tier, kind, count))
    # sizes beyond library / block thresholds
    for j, kind in enumerate(['model', 'grid', 'cli', 'grid']):
        plans.append(big_plan(base_seed * 1000003 + 960000 + j, tier, kind, floor=True))
    plans.append(big_plan(base_seed * 1000003 + 960009, tier, 'grid', floor=True, huge=True))
    if tier != 'quick':
        plans.append(big_plan(base_seed * 1000003 + 960010, tier, 'model', floor=True, huge=True))
    plans += sibling_floor_plans(base_seed, tier, reps=2 if tier == 'quick' else 6)
    plans += fault_floor_plans(base_seed, tier)
    plans += round_floor_plans(base_seed, tier)
    plans += mid_floor_plans(base_seed, tier)
    plans += tolerance_floor_plans(base_seed, tier)
    plans += regime_floor_plans(base_seed, tier)
    plans += twin_floor_plans(base_seed, tier)
    plans += option_floor_plans(base_seed, tier)
    plans += order_floor_plans(base_seed, tier)
    plans += minimal_floor_plans(base_seed, tier)
    plans += mixed_floor_plans(base_seed, tier)
    plans += lifetime_floor_plans(base_seed, tier)
    return plans


# ------------------------------------------------- direct (constructor) tasks

def gen_direct_task(rng, ground='shared_ideal', maxops=20):
    """A model built through the constructors, as the unit tests do.  Two such
    tasks in one world can share the exported `ideal_ground` Medium object."""
    L = rng.choice([5.0, 10.0, 16.0])
    r = rng.choice([0.0005, 0.001, 0.002, 0.01])
    n = rng.randrange(4, 10)
    t = rng.choice(['monopole', 'inv_l', 'dipole_above', 'two'])
    if ground is None:
        t = rng.choice(['dipole_above', 'vee'])
    wires = []
    if t == 'monopole':
        wires.append([n, 0, 0, 0, 0, 0, L / 2, r])
    elif t == 'inv_l':
        wires.append([n, 0, 0, 0, 0, 0, L / 3, r])
        wires.append([rng.randrange(4, 8), 0, 0, L / 3, L / 2, 0, L / 3, r])
    elif t == 'dipole_above':
        wires.append([n, 0, 0, 6.0, L, 0, 6.0, r])
    elif t == 'vee':
        wires.append([n, -L / 2, 0, 5.0, 0, 0, 8.0, r])
        wires.append([rng.randrange(4, 8), 0, 0, 8.0, L / 2, 0, 5.0, r])
    else:
        wires.append([n, 0, 0, 0, 0, 0, L / 2, r])
        wires.append([rng.randrange(4, 8), L / 3, 0, 0, L / 3, 0, L / 2.5, r])
    npl = sum(w[0] - 1 for w in wires)
    if rng.random() < 0.3:
        sources = [['mp', rng.choice([1.0, 2.5]), rng.choice([0.0, 30.0, -90.0]), rng.randrange(0, npl)]]
    else:
        sources = [[rng.choice(['1', '1+0.5j', '2']), rng.randrange(0, npl)]]
    if rng.random() < 0.3:
        sources.append([rng.choice(['1', '0.5-1j']), rng.randrange(0, npl)])
    xloads = []
    r3 = rng.random()
    if r3 < 0.12:
        xloads.append(['rlc', rng.choice([5.0, 0.0]), rng.choice([2e-6, None]), rng.choice([1e-10, None]), rng.randrange(0, npl)])
    elif r3 < 0.24:
        xloads.append(['trap', 1.0, 1e-6, 1e-10, rng.randrange(0, npl)])
    elif r3 < 0.36:
        xloads.append(['laplace', [1.0, 1e-9], [0.0, 1e-6], rng.randrange(0, npl)])
    elif r3 < 0.48:
        xloads.append(['insul', rng.choice([1.5, 3.0]), rng.choice([2.3, 4.0]), rng.randrange(len(wires))])
    loads = []
    if rng.random() < 0.5:
        loads.append([rng.choice(['50+3j', '10-100j']), rng.randrange(0, npl),
                      rng.choice(['abs', 'abs', 'geo', 'all_geo', 'all'])])
        if rng.random() < 0.3:
            loads.append([rng.choice(['5', '0+20j']), rng.randrange(0, npl), rng.choice(['abs', 'geo'])])
    skin = []
    sig = []
    if rng.random() < 0.4:
        s = rng.choice([5.8e7, 1e6, 1e5])
        skin.append([s, rng.randrange(len(wires))])
        sig.append(s)
    transforms = []
    if rng.random() < 0.6:
        # drawn from a small menu so that two models of one world coincide
        menu = [['rotate', 1, [0, 0, 35], None], ['rotate', 1, [0, 0, 90], None],
                ['translate', 2, [1.5, 0, 0], None], ['translate', 2, [0, -2.0, 0], None]]
        if ground is None:
            menu += [['rotate', 1, [30, 0, 0], None], ['rotate', 3, [0, 45, 10], None],
                     ['translate', 2, [0, 0, 1.0], None], ['scale', 2.0, None]]
        transforms = [rng.choice(menu) for _ in range(rng.choice([1, 1, 2]))]
    m = Model()
    m.length = L
    m.radii = [r]
    m.skin_sigma = sig
    m.geo = [dict(kind='wire', nseg=w[0], r=r, tag=None) for w in wires]
    pool, probes = gen_pool(rng, m)
    fars = [gen_far(rng) for _ in range(rng.choice([1, 2]))]
    nears = [gen_near(rng, m) for _ in range(rng.choice([0, 1]))]
    ops = gen_api_ops(rng, len(pool), len(fars), len(nears), maxops)
    feats = ['direct_builder']
    if loads:
        feats.append('load_impedance')
    if skin:
        feats.append('load_skin_c')
    return dict(kind='api', builder='direct',
                direct=dict(wires=wires, ground=ground, sources=sources, loads=loads, skin=skin,
                            transforms=transforms, share_args=rng.random() < 0.8, xloads=xloads,
                            rejects=[[rng.choice(['insul_small', 'skin_twice', 'src_range', 'load_range',
                                                  'excitation_both', 'medium_bad']),
                                      rng.choice(['before', 'after']), rng.randrange(len(wires))]
                                     for _ in range(rng.choice([0, 1, 1, 2]))],
                            timing=rng.random() < 0.15, gauge=rng.choice([None, None, None, 12, 18])),
                argv=[], pool=pool, fars=fars, nears=nears, ops=ops, template='direct_' + t,
                env='ideal' if ground else 'free', features=feats, probes=probes,
                npulses=npl + 2 * len(wires))


# ------------------------------------------------------------- long histories

def tiny_model(rng):
    """A very small model (4..7 pulses) so that hundreds of operations cost
    about a second: repetition counts are a dimension of history of their
    own (counters, doubling flags, bounded caches overflow only after many
    repetitions)."""
    m = Model()
    env = rng.choice(['free', 'free', 'ideal', 'real1'])
    r = rng.choice([0.001, 0.002, 0.0005])
    n = rng.randrange(4, 8)
    L = rng.choice([10.0, 21.414285, 5.0])
    a = []
    if env == 'free':
        o, v = _wire(n, (0, 0, 0), (L, 0, 0), r)
        m.template = 'tiny_dipole'
        p1, p2 = (0.0, 0.0, 0.0), (L, 0.0, 0.0)
    else:
        o, v = _wire(n, (0, 0, 0), (0, 0, L / 2), r)
        m.template = 'tiny_monopole'
        p1, p2 = (0.0, 0.0, 0.0), (0.0, 0.0, L / 2)
    a += [o, v]
    m.geo.append(dict(kind='wire', nseg=n, r=r, tag=None, etag=1, p1=p1, p2=p2))
    m.radii.append(r)
    m.length = L
    m.argv_geo = a
    gen_env(rng, m, env)
    gen_sources(rng, m)
    kinds = rng.choice([[], [], ['impedance'], ['skin_c'], ['rlc'], ['insulation'], ['laplace']])
    gen_loads(rng, m, kinds)
    return m


def gen_long_api_task(rng, cycles):
    m = tiny_model(rng)
    pool, probes = gen_pool(rng, m, k=rng.choice([2, 3, 5]))
    if rng.random() < 0.5:
        # many distinct frequencies, revisited at random: bounded caches
        # keyed by frequency only misbehave after enough distinct keys
        nf = rng.choice([9, 12, 20, 40])
        f0 = pool[0]
        pool = [float(repr(round(f0 * (0.7 + 0.6 * i / nf), 6))) for i in range(nf)]
        rng.shuffle(pool)
        probes = probes + ['large_frequency_pool']
    fars = [[[0, 45, 2], [0, 90, 1], None, 0], [[10, 30, 2], [0, 90, 2], 100.0, 1000.0]]
    nears = [[[1.0, 1.0, 2.0], [1.0, 1.0, 1.0], [1, 1, 2], None]]
    ops = []
    st = ApiState()
    for i in range(cycles):
        r = rng.random()
        if r < 0.7:
            op = ['SET_F', rng.randrange(len(pool))]
            ops.append(op)
        ops.append(['COMPUTE'])
        if rng.random() < 0.1:
            ops.append(['COMPUTE'])
        r = rng.random()
        if r < 0.06:
            ops += [['FAR', rng.randrange(2)], ['OBS_REPORT', ['far-field', 'far-field-absolute']]]
        elif r < 0.1:
            ops += [['NEAR', 0], ['OBS_REPORT', ['near-field']]]
        else:
            ops.append(['OBS_NUM'])
    return dict(kind='api', builder='cli', argv=m.argv(), pool=pool, fars=fars, nears=nears, ops=ops,
                template=m.template, env=m.env, features=sorted(set(m.features + ['long_history'])),
                probes=probes, npulses=m.min_pulses() + 2)


def gen_long_cli_task(rng, steps, kind):
    m = tiny_model(rng)
    f0 = rng.choice([7.0, 14.1, 3.6])
    base = ['-f', repr(f0)] + m.argv() + ['--theta=0,45,2', '--phi=0,90,1']
    if rng.random() < 0.3:
        base += ['--option', 'none']
    if kind == 'sweep':
        inc = rng.choice([0.05, 0.01, 0.1, float(repr(round(f0 * 7e-6, 10))), float(repr(round(f0 * 1e-4, 10)))])
        ops = [['SWEEP', base, inc, steps]]
    else:
        other = ['-f', repr(f0 * 1.1)] + m.argv() + ['--option', 'none', '--output-cmdline', 'long.txt']
        ops = []
        for i in range(steps):
            ops.append(['RUN', base if i % 2 == 0 or rng.random() < 0.5 else other])
    return dict(kind='cli', ops=[_copy_op(o) for o in ops], template=m.template, env=m.env,
                features=sorted(set(m.features + ['long_history'])), probes=[], npulses=m.min_pulses() + 2,
                pool=[f0])


def long_plan(run_seed, tier='quick', kind=None, count=None):
    rng = random.Random(run_seed)
    kind = kind or rng.choice(['api', 'api', 'sweep', 'runs'])
    if kind == 'api':
        t = gen_long_api_task(rng, count or rng.choice([70, 70, 140, 270, 520, 1100]))
    else:
        t = gen_long_cli_task(rng, count or rng.choice([66, 70, 130, 130, 260]), kind)
    perturbed = rng.random() < 0.5
    return dict(version=1, run_seed=run_seed, tier=tier, long=True,
                config='perturbed' if perturbed else 'plain',
                hist=env_side(rng, perturbed, 'hist'), orac=env_side(rng, perturbed, 'orac'),
                disk={}, tasks=[t], schedule=[0] * len(t['ops']))


# ---------------------------------------------------------------- big worlds

def big_model(rng, at_least=0):
    """A model of 250..450 pulses (an array of parallel elements): sizes
    beyond the thresholds at which libraries and 'clever' code change
    behaviour (numpy summarises printed arrays above 1000 elements, block and
    chunk sizes of 1024/2048/4096, memory-aware splitting)."""
    m = Model()
    k = rng.randrange(12, 21)
    ns = rng.randrange(18, 25)
    while k * (ns - 1) < at_least:
        k += 1
    L = rng.choice([1.0, 2.0])
    r = rng.choice([0.001, 0.002])
    env = rng.choice(['free', 'free', 'ideal'])
    h = 0.0 if env == 'free' else 3.0
    a = []
    for i in range(k):
        li = L * (1 - 0.01 * i)
        p1, p2 = (i * L / 4, -li / 2, h), (i * L / 4, li / 2, h)
        o, v = _wire(ns, p1, p2, r)
        a += [o, v]
        m.geo.append(dict(kind='wire', nseg=ns, r=r, tag=None, etag=i + 1,
                          p1=tuple(float(x) for x in p1), p2=tuple(float(x) for x in p2)))
        m.radii.append(r)
    m.template = 'big_array'
    m.length = L
    m.argv_geo = a
    gen_env(rng, m, env)
    m.argv_src = ['--excitation-pulse=%d,%d' % (ns // 2, rng.randrange(1, k + 1))]
    if rng.random() < 0.5:
        gen_loads(rng, m, [rng.choice(['impedance', 'skin_c'])])
    m.features.append('big_model')
    return m


def big_plan(run_seed, tier='quick', kind=None, floor=False, huge=False):
    rng = random.Random(run_seed)
    kind = kind or rng.choice(['model', 'grid', 'cli'])
    far_big = [[0, 5, 37], [0, 5, 73], None, 0]
    far_big2 = [[0, 2, 46], [0, 4, 91], 100.0, 1000.0]
    if huge:
        # the grids people plot: 2 degree and 1 degree full-sphere patterns
        far_big = [[0, 2, 91], [0, 2, 181], None, 0]            # 16471 directions
        far_big2 = [[0, 1, 181], [0, 1, 361], 100.0, 1000.0]    # 65341 directions
    tasks = []
    if kind == 'model':
        m = big_model(rng, at_least=(1040 if huge else 520) if floor else 0)
        f0 = round(150.0 / m.length, 3)
        pool = [f0, round(f0 * rng.choice([1.004, 1.03]), 3)]
        ops = [['COMPUTE'], ['OBS_NUM'], ['SET_F', 1], ['COMPUTE'], ['FAR', 0], ['OBS_NUM'],
               ['OBS_REPORT', ['far-field']]]
        if floor:
            sib = variant_model(rng, m, force='move_middle_wire')
        else:
            sib = (fuzz_variant if rng.random() < 0.6 else variant_model)(rng, m)
        for mm_ in (m, sib):
            tasks.append(dict(kind='api', builder='cli', argv=mm_.argv(), pool=list(pool),
                              fars=[gen_far(rng)], nears=[], ops=[list(o) for o in ops],
                              template=mm_.template, env=mm_.env, features=sorted(set(mm_.features)),
                              probes=['big_model'], npulses=mm_.min_pulses()))
        sched = [0] * len(ops) + [1] * len(ops)
    elif kind == 'grid':
        m = tiny_model(rng) if huge else gen_model(rng)
        if floor:
            # over two or three media (reflection point and medium per
            # direction), a tiny structure so that the grid dominates
            m = gen_model(rng, env=rng.choice(['real2', 'real3']), kinds=[],
                          template=rng.choice(['monopole', 'inv_l', 'dipole']))
        pool, probes = gen_pool(rng, m, k=2)
        # the same big grid once more with another azimuth start (a 3D
        # pattern requested in two halves)
        far_half = [list(far_big[0]), [far_big[1][0] + 180, far_big[1][1], far_big[1][2]], far_big[2], far_big[3]]
        ops = [['COMPUTE'], ['FAR', 0, 'r'], ['OBS_NUM'], ['FAR', 2], ['OBS_NUM'], ['SET_F', 1], ['COMPUTE'],
               ['FAR', 0, 'r'], ['OBS_NUM'],
               ['FAR', 1], ['OBS_REPORT', ['far-field', 'far-field-absolute']], ['SET_F', 0], ['COMPUTE'],
               ['FAR', 1], ['OBS_NUM'], ['FAR', 2], ['FAR', 0], ['OBS_NUM']]
        near_big = [[-5.0, -5.0, 0.5], [1.0, 1.0, 0.7], [11, 11, 9], None]      # 1089 points
        if rng.random() < 0.5:
            ops = ops + [['NEAR', 0], ['OBS_NUM'], ['SET_F', 1], ['COMPUTE'], ['NEAR', 0, 'r'], ['OBS_NUM']]
        tasks.append(dict(kind='api', builder='cli', argv=m.argv(), pool=pool[:2], fars=[far_big, far_big2, far_half],
                          nears=[near_big], ops=ops, template=m.template, env=m.env,
                          features=sorted(set(m.features + ['big_grid'])), probes=probes + ['big_grid'],
                          npulses=m.min_pulses() + 2 * len(m.geo)))
        sched = [0] * len(ops)
    else:
        m = big_model(rng, at_least=520 if floor else 0) if (floor or rng.random() < 0.5) else gen_model(rng)
        f0 = round(150.0 / max(m.length, 1.0), 3)
        grid = ['--theta=0,5,37', '--phi=0,5,73'] if 'big_model' not in m.features or rng.random() < 0.3 \
            else ['--theta=0,30,3', '--phi=0,90,2']
        base = ['-f', repr(f0)] + m.argv() + grid + ['--output-cmdline', 'big.txt']
        if floor and 'big_model' in m.features:
            sib = variant_model(rng, m, force='move_middle_wire')
        else:
            sib = (fuzz_variant if rng.random() < 0.6 else variant_model)(rng, m)
        other = ['-f', repr(f0)] + sib.argv() + grid + ['--output-cmdline', 'big.txt']
        ops = [['RUN', base], ['RUN', other], ['SWEEP', base, round(f0 * rng.choice([0.004, 0.02]), 4), 2, 0],
               ['RUN', other], ['RUN', base]]
        tasks.append(dict(kind='cli', ops=[_copy_op(o) for o in ops], template=m.template, env=m.env,
                          features=sorted(set(m.features + ['big_cli'])), probes=['big_cli'],
                          npulses=m.min_pulses() + 2 * len(m.geo), pool=[f0]))
        sched = [0] * len(ops)
    perturbed = rng.random() < 0.5
    return dict(version=1, run_seed=run_seed, tier=tier, big=True,
                config='perturbed' if perturbed else 'plain',
                hist=env_side(rng, perturbed, 'hist'), orac=env_side(rng, perturbed, 'orac'),
                disk={}, tasks=tasks, schedule=sched)


# -------------------------------------------------------------- sibling floor

# which base models make a sibling change meaningful
_SIB_BASE = {
    'scale': dict(envs=['free'], templates=['tapered', 'vee', 'two_wires', 'helix', 'radii2'], kinds=[['skin_c'], ['insulation'], ['impedance']]),
    'translate': dict(envs=['free'], templates=['tapered', 'vee', 'arc', 'star'], kinds=[['skin_c'], [], ['rlc']]),
    'rotate': dict(envs=['free'], templates=['tapered', 'bent3', 'arc', 'loop'], kinds=[[], ['trap']]),
    'same': dict(envs=['free', 'ideal', 'real2'], templates=[None], kinds=[None]),
    'load_value': dict(envs=['free', 'ideal'], templates=[None], kinds=[['impedance'], ['skin_c'], ['insulation']]),
    'voltage': dict(envs=['free', 'ideal'], templates=[None], kinds=[None]),
    'drop_loads': dict(envs=['free', 'real1'], templates=[None], kinds=[['skin_r', 'impedance'], ['insulation', 'laplace']]),
    'taper': dict(envs=['free', 'ideal'], templates=['dipole', 'tapered', 'vee'], kinds=[None]),
    'taper_limits': dict(envs=['free', 'ideal'], templates=['tapered'], kinds=[None]),
    'segments': dict(envs=['free', 'ideal'], templates=[None], kinds=[None]),
    'radius': dict(envs=['free', 'ideal'], templates=[None], kinds=[['insulation'], ['skin_c'], None]),
    'media_form': dict(envs=['real2', 'real3', 'real4'], templates=[None], kinds=[None]),
    'toggle_ground': dict(envs=['free', 'ideal'], templates=['dipole', 'vee', 'two_wires', 'array', 'zigzag'], kinds=[None]),
    'other_ground': dict(envs=['ideal', 'real1', 'real2'], templates=[None], kinds=[None]),
    'reattach': dict(envs=['free', 'ideal'], templates=['array_tail', 'zigzag', 'tee_free', 'gnd_star'], kinds=[None]),
    'fuzz': dict(envs=['free', 'ideal', 'real2'], templates=[None], kinds=[None]),
    'scale_band': dict(envs=['free'], templates=['dipole', 'vee', 'two_wires', 'array'], kinds=[[], ['impedance'], ['skin_c']]),
    'swap_wires': dict(envs=['free', 'ideal'], templates=['two_wires', 'array', 'vee'], kinds=[[], ['impedance'], ['skin_c']]),
    'repeat_option': dict(envs=['free', 'ideal'], templates=[None], kinds=[None]),
}


def sibling_pool(model, pool):
    sc = getattr(model, 'pool_scale', None)
    if sc:
        return [float(repr(f / sc)) for f in pool]
    return list(pool)


def sibling_floor_plans(base_seed, tier='quick', reps=2):
    """For every sibling change of the list, `reps` worlds in which a base
    model that makes the change meaningful and its sibling run side by side
    at the same frequencies - once as two live objects, once as two command
    lines in one interpreter.  Coverage of the sibling dimension must not be
    left to the luck of the random draw."""
    plans = []
    i = 0
    for kind in list(VARIANT_KINDS) + ['fuzz']:
        spec = _SIB_BASE[kind]
        nrep = max(reps, len(spec['kinds']), len(spec['templates']))
        for rep in range(nrep):
            seed = base_seed * 1000003 + 970000 + i
            i += 1
            rng = random.Random(seed)
            for attempt in range(20):
                # cycle through the listed load kinds / templates / environments
                base = gen_model(rng, env=spec['envs'][rep % len(spec['envs'])],
                                 kinds=spec['kinds'][rep % len(spec['kinds'])],
                                 template=spec['templates'][rep % len(spec['templates'])])
                sib = fuzz_variant(rng, base) if kind == 'fuzz' else variant_model(rng, base, force=kind)
                if kind == 'fuzz' or ('variant_' + kind) in sib.features:
                    break
            pool, probes = gen_pool(rng, base, k=2)
            far = gen_far(rng)
            near = gen_near(rng, base)
            ops = [['COMPUTE'], ['FAR', 0], ['OBS_NUM'], ['OBS_REPORT', ['far-field']], ['SET_F', 1], ['COMPUTE'],
                   ['NEAR', 0], ['FAR', 0], ['OBS_NUM'], ['OBS_CMDLINE']]
            tasks = []
            for mm_ in (base, sib):
                tasks.append(dict(kind='api', builder='cli', argv=mm_.argv(), pool=sibling_pool(mm_, pool[:2]), fars=[far],
                                  nears=[near], ops=[list(o) for o in ops], template=mm_.template, env=mm_.env,
                                  features=sorted(set(mm_.features)), probes=list(probes),
                                  npulses=mm_.min_pulses() + 2 * len(mm_.geo)))
            # base fully first, then the sibling (and, second repetition, interleaved)
            sched = [0] * len(ops) + [1] * len(ops) if rep % 2 == 0 else [x for _ in ops for x in (0, 1)]
            plans.append(dict(version=1, run_seed=seed, tier=tier, floor=True, config='plain',
                              hist=env_side(rng, False, 'hist'), orac=env_side(rng, False, 'orac'),
                              disk={}, tasks=tasks, schedule=sched))
            fa = field_args(rng, base, force=['far-field'])
            a0 = ['-f', repr(pool[0])] + base.argv() + fa + ['--output-cmdline', 'sib.txt']
            p1 = sibling_pool(sib, pool)
            a1 = ['-f', repr(p1[0])] + sib.argv() + fa + ['--output-cmdline', 'sib.txt']
            inc = float(repr(round(pool[1] - pool[0], 6)))
            inc1 = float(repr(p1[1] - p1[0])) if getattr(sib, 'pool_scale', None) else inc
            cli = dict(kind='cli', ops=[['RUN', a0], ['RUN', a1], ['SWEEP', a0, inc, 2, 0], ['SWEEP', a1, inc1, 2, 0],
                                        ['RUN', a0], ['RUN', a1]],
                       template=base.template, env=base.env, features=sorted(set(base.features + sib.features)),
                       probes=list(probes), npulses=base.min_pulses() + 2 * len(base.geo), pool=list(pool))
            cli['ops'] = [_copy_op(o) for o in cli['ops']]
            plans.append(dict(version=1, run_seed=seed + 500, tier=tier, floor=True, config='plain',
                              hist=env_side(rng, False, 'hist'), orac=env_side(rng, False, 'orac'),
                              disk={}, tasks=[cli], schedule=[0] * len(cli['ops'])))
    return plans


# ---------------------------------------------------------------- fault floor

def fault_floor_plans(base_seed, tier='quick'):
    """Every fault kind of the API alphabet in fixed short worlds: each
    malformed far / near request, a premature request, an early report, and
    Ctrl-C at early / middle / late call events of every interruptible
    operation - over free space and over ground.  The random worlds carry
    these faults with a few per cent probability each; whether a particular
    one (say, the near-field request that fails inside its point loop) occurs
    in a run must not be a matter of luck."""
    plans = []
    i = 0
    cases = []
    for k in range(7):
        cases.append(('near_bad%d' % k, [['NEAR', 0], ['OBS_NUM'], ['NEAR_BAD', k]]))
    for k in range(6):
        cases.append(('far_bad%d' % k, [['FAR', 0], ['OBS_NUM'], ['FAR_BAD', k]]))
    cases.append(('premature', [['SET_F', 1], ['FAR', 0, 'x'], ['NEAR', 0, 'x'], ['SET_F', 0], ['COMPUTE']]))
    cases.append(('early_report', [['NEAR', 0], ['REPORT_EARLY'], ['SET_F', 1], ['REPORT_EARLY'], ['SET_F', 0], ['COMPUTE']]))
    # ... and without touching the frequency again before the compute: what
    # the premature request derived from the old solution must not survive it
    obs = [['COMPUTE'], ['FAR', 0], ['NEAR', 0], ['OBS_NUM'], ['OBS_REPORT', ['far-field', 'near-field']], ['SET_F', 0],
           ['COMPUTE']]
    cases.append(('premature_far_then_compute', [['SET_F', 1], ['FAR', 0, 'x']] + obs))
    cases.append(('premature_near_then_compute', [['SET_F', 1], ['NEAR', 0, 'x']] + obs))
    cases.append(('early_report_then_compute', [['NEAR', 0], ['FAR', 0], ['SET_F', 1], ['REPORT_EARLY']] + obs))
    cases.append(('early_misc_then_compute', [['SET_F', 1], ['OBS_MISC', 5], ['OBS_CMDLINE']] + obs))
    cases.append(('assignment_repeated', [['SET_F', 1], ['SET_F', 1]] + obs))
    cases.append(('assignment_back_and_forth', [['SET_F', 1], ['SET_F', 0], ['SET_F', 1]] + obs))
    for opk in ('SET_F', 'COMPUTE', 'FAR', 'NEAR'):
        pts = [(at, 'kbd') for at in (1, 4, 40, 400, 2500)] + [(at, 'mem') for at in (2, 9, 90, 900)]
        if opk == 'COMPUTE':
            # a failing allocation anywhere in the matrix fill / solve
            pts += [(at, 'mem') for at in (15, 25, 60, 150, 250, 600, 1500, 4000, 9000)]
        for at, ex in pts:
            flt = {'interrupt': at, 'exc': ex}
            if opk == 'SET_F':
                ops = [['SET_F', 1, flt], ['COMPUTE']]
            elif opk == 'COMPUTE':
                ops = [['SET_F', 1], ['COMPUTE', flt]]
            elif opk == 'FAR':
                ops = [['FAR', 0, '', flt]]
            else:
                ops = [['NEAR', 0, '', flt]]
            cases.append(('%s_%s_%d' % ('interrupt' if ex == 'kbd' else 'allocfail', opk, at), ops))
    # two continuations after the fault: the caller goes on to another
    # frequency first (nothing well-formed of the same kind in between), or
    # asks for fields at the present frequency first
    tail_a = [['SET_F', 1], ['COMPUTE'], ['OBS_NUM'], ['FAR', 1], ['NEAR', 0], ['OBS_NUM'],
              ['OBS_REPORT', ['far-field', 'near-field']], ['SET_F', 0], ['COMPUTE'], ['OBS_NUM']]
    tail_b = [['FAR', 0], ['NEAR', 0], ['OBS_NUM'], ['OBS_REPORT', ['far-field', 'near-field']],
              ['SET_F', 1], ['COMPUTE'], ['NEAR', 0], ['FAR', 1], ['OBS_NUM'], ['OBS_MISC', 3],
              ['SET_F', 0], ['COMPUTE'], ['FAR', 0], ['OBS_NUM']]
    for name, mid in cases:
        for env in ('free', 'ideal'):
            seed = base_seed * 1000003 + 980000 + i
            i += 1
            rng = random.Random(seed)
            kinds = rng.choice([[], ['impedance'], ['skin_c'], ['insulation']])
            m = gen_model(rng, env=env, kinds=kinds,
                          template=rng.choice(['dipole', 'vee', 'two_wires']) if env == 'free'
                          else rng.choice(['monopole', 'inv_l', 'monopole_ud', 'tee_gnd']))
            pool, probes = gen_pool(rng, m, k=2)
            ops = [['COMPUTE']] + [_copy_op(o) for o in mid + tail_a + mid + tail_b]
            t = dict(kind='api', builder='cli', argv=m.argv(), pool=pool[:2], fars=[gen_far(rng), gen_far(rng)],
                     nears=[gen_near(rng, m)], ops=ops, template=m.template, env=m.env,
                     features=sorted(set(m.features + ['fault_floor:' + name])), probes=probes,
                     npulses=m.min_pulses() + 2 * len(m.geo))
            plans.append(dict(version=1, run_seed=seed, tier=tier, floor=True, config='plain',
                              hist=env_side(rng, False, 'hist'), orac=env_side(rng, False, 'orac'),
                              disk={}, tasks=[t], schedule=[0] * len(ops)))
    # command-line level: an interrupted / rejected invocation, then the same command line again
    for j, (kind, at) in enumerate([('interrupt', 30), ('interrupt', 600), ('interrupt', 6000), ('interrupt', 30000),
                                    ('bad', 0), ('bad', 1), ('bad', 2), ('bad', 3),
                                    ('allocfail', 100), ('allocfail', 1000), ('allocfail', 3000), ('allocfail', 10000),
                                    ('allocfail', 20000), ('allocfail', 45000)]):
        seed = base_seed * 1000003 + 985000 + j
        rng = random.Random(seed)
        m = gen_model(rng, env=rng.choice(['free', 'ideal', 'real2']))
        pool, probes = gen_pool(rng, m, k=2)
        argv = ['-f', repr(pool[0])] + m.argv() + field_args(rng, m, force=['far-field', 'near-field']) \
            + ['--output-cmdline', 'ff.txt']
        inc = float(repr(round(pool[1] - pool[0], 6)))
        if kind in ('interrupt', 'allocfail'):
            first = ['RUN', list(argv), {'interrupt': at, 'exc': 'kbd' if kind == 'interrupt' else 'mem'}]
        else:
            first = ['RUN_BAD', rng.choice(BAD_ARGVS)]
        ops = [['RUN', list(argv)], first, ['RUN', list(argv)], ['SWEEP', list(argv), inc, 2, rng.randrange(4)],
               first, ['RUN', list(argv)]]
        t = dict(kind='cli', ops=[_copy_op(o) for o in ops], template=m.template, env=m.env,
                 features=sorted(set(m.features + ['fault_floor:cli_' + kind])), probes=probes,
                 npulses=m.min_pulses() + 2 * len(m.geo), pool=list(pool))
        plans.append(dict(version=1, run_seed=seed, tier=tier, floor=True, config='plain',
                          hist=env_side(rng, False, 'hist'), orac=env_side(rng, False, 'orac'),
                          disk={}, tasks=[t], schedule=[0] * len(ops)))
    return plans


# ------------------------------------------------------- round-number floor

def round_floor_plans(base_seed, tier='quick'):
    """Frequencies as people type them, in fixed worlds: a whole number of
    MHz (for constructor-built models typed without a decimal point, i.e. an
    int), fractional neighbours in the same MHz above it, and the whole
    number again - on one object, and as a downward sweep that ends on the
    whole number.  Every frequency-dependent load kind takes part.  Random
    pools are products of random factors and meet such values only by
    chance; truncation, rounding and integer typing only show there."""
    plans = []
    kinds_cycle = [['rlc'], ['trap'], ['laplace'], ['skin_c'], ['insulation'], ['skin_r', 'impedance'],
                   ['trap', 'skin_c'], []]
    for i in range(8 if tier == 'quick' else 16):
        seed = base_seed * 1000003 + 990000 + i
        rng = random.Random(seed)
        direct = i % 2 == 1
        env = ['free', 'ideal'][(i // 2) % 2]
        ops = [['COMPUTE'], ['OBS_NUM'], ['SET_F', 1], ['COMPUTE'], ['FAR', 0], ['OBS_NUM'],
               ['OBS_REPORT', ['far-field']], ['SET_F', 3], ['COMPUTE'], ['OBS_NUM'], ['FAR', 0],
               ['OBS_REPORT', ['far-field']], ['SET_F', 2], ['COMPUTE'], ['SET_F', 0], ['COMPUTE'], ['OBS_NUM'],
               ['SET_F', 4], ['COMPUTE'], ['SET_F', 3], ['COMPUTE'], ['OBS_NUM'], ['OBS_BASIC', 13]]
        if direct:
            t = gen_direct_task(rng, ground='shared_ideal' if env == 'ideal' else None)
            if not t['direct']['xloads']:
                t['direct']['xloads'] = [['rlc', 5.0, 2e-6, 1e-10, 0]]
            L = 10.0
        else:
            m = gen_model(rng, env=env, kinds=kinds_cycle[i % len(kinds_cycle)],
                          template=rng.choice(['dipole', 'vee']) if env == 'free' else rng.choice(['monopole', 'inv_l']))
            L = m.length
            t = dict(kind='api', builder='cli', argv=m.argv(), template=m.template, env=m.env,
                     features=sorted(set(m.features)), npulses=m.min_pulses() + 2 * len(m.geo))
        n = max(2, int(round(150.0 / max(L, 1.0))))
        frac = [0.15, 0.35, 0.5, 0.25][i % 4]
        t['pool'] = [n if direct else float(n), n + frac, n + 0.5 if frac != 0.5 else n + 0.75, float(n), n - 0.25]
        t['fars'] = [gen_far(rng)]
        t['nears'] = []
        t['ops'] = [_copy_op(o) for o in ops]
        t['probes'] = ['round_frequencies'] + (['int_typed_frequency'] if direct else [])
        t['features'] = sorted(set(t['features'] + ['round_floor']))
        tasks = [t]
        sched = [0] * len(ops)
        if not direct:
            argv = ['-f', repr(n + 0.5)] + m.argv() + field_args(rng, m, force=['far-field']) \
                + ['--output-cmdline', 'round.txt']
            whole = ['-f', str(n)] + argv[2:]
            cops = [['SWEEP', list(argv), -0.25, 3, i % 4], ['RUN', list(whole)], ['SWEEP', list(whole), 0.5, 2, 0],
                    ['SWEEP', list(argv), -0.5, 2, (i + 1) % 4], ['RUN', list(whole)]]
            tasks.append(dict(kind='cli', ops=[_copy_op(o) for o in cops], template=m.template, env=m.env,
                              features=sorted(set(m.features + ['round_floor'])), probes=['round_frequencies'],
                              npulses=m.min_pulses() + 2 * len(m.geo), pool=[n + 0.5, float(n)]))
            sched += [1] * len(cops)
        plans.append(dict(version=1, run_seed=seed, tier=tier, floor=True, config='plain',
                          hist=dict(env_side(rng, False, 'hist'), capture='redirect' if i % 4 == 0 else 'tap'),
                          orac=env_side(rng, False, 'orac'),
                          disk={}, tasks=tasks, schedule=sched))
    return plans


# ------------------------------------------------------ mid-size sibling floor

MID_KINDS = ['taper', 'segments', 'radius', 'scale', 'translate', 'rotate', 'load_value', 'voltage',
             'drop_loads', 'toggle_ground', 'other_ground', 'scale_band', 'move_middle_wire']


def mid_model(rng, env):
    """205..260 pulses: beyond the size at which 'only worth it for larger
    models' code paths (a cache, a different solver, chunking) begin, small
    enough that every sibling change can be afforded in every run."""
    m = Model()
    ns = rng.randrange(18, 21)
    k = 11
    while k * (ns - 1) < 205:
        k += 1
    L = rng.choice([1.0, 2.0])
    r = rng.choice([0.001, 0.002])
    h = 0.0 if env == 'free' else 3.0
    a = []
    for i in range(k):
        li = L * (1 - 0.01 * i)
        p1, p2 = (i * L / 4, -li / 2, h), (i * L / 4, li / 2, h)
        o, v = _wire(ns, p1, p2, r)
        a += [o, v]
        m.geo.append(dict(kind='wire', nseg=ns, r=r, tag=None, etag=i + 1,
                          p1=tuple(float(x) for x in p1), p2=tuple(float(x) for x in p2)))
        m.radii.append(r)
    m.template = 'mid_array'
    m.length = L
    m.argv_geo = a
    gen_env(rng, m, env)
    m.argv_src = ['--excitation-pulse=%d,%d' % (ns // 2, rng.randrange(1, k + 1))]
    gen_loads(rng, m, ['impedance', 'skin_c'])
    m.features.append('mid_model')
    return m


def mid_floor_plans(base_seed, tier='quick'):
    """Every sibling change once on a model of 205..260 pulses, in both
    orders (base first / sibling first), on live objects in one interpreter
    and as command lines in successive processes on one machine (only the
    private directories survive the restarts)."""
    plans = []
    for i, how in enumerate(MID_KINDS):
        seed = base_seed * 1000003 + 995000 + i
        rng = random.Random(seed)
        env = 'ideal' if how in ('toggle_ground', 'other_ground') or i % 3 == 2 else 'free'
        m = mid_model(rng, env)
        sib = variant_model(rng, m, force=how)
        f0 = round(150.0 / m.length, 3)
        pool = [f0, round(f0 * 1.03, 3)]
        p1 = sibling_pool(sib, pool)
        pair = [(m, pool), (sib, p1)]
        if i % 2:
            pair.reverse()
        ops = [['COMPUTE'], ['OBS_NUM'], ['FAR', 0], ['OBS_REPORT', ['far-field']]]
        far = gen_far(rng)
        tasks = []
        for mm_, pl in pair:
            tasks.append(dict(kind='api', builder='cli', argv=mm_.argv(), pool=list(pl), fars=[far], nears=[],
                              ops=[list(o) for o in ops], template=mm_.template, env=mm_.env,
                              features=sorted(set(mm_.features)), probes=['mid_model'],
                              npulses=mm_.min_pulses()))
        grid = ['--theta=0,30,3', '--phi=0,90,2']
        cl = [['-f', repr(pl[0])] + mm_.argv() + grid + ['--output-cmdline', 'mid.txt'] for mm_, pl in pair]
        cops = [['RUN', cl[0]], ['RESTART'], ['RUN', cl[1]], ['RESTART'], ['RUN', cl[0]], ['RUN', cl[1]]]
        tasks.append(dict(kind='cli', ops=[_copy_op(o) for o in cops], template=m.template, env=m.env,
                          features=sorted(set(m.features + sib.features)), probes=['mid_model'],
                          npulses=m.min_pulses() + 2 * len(m.geo), pool=list(pool)))
        sched = [0] * len(ops) + [1] * len(ops) + [2] * len(cops)
        plans.append(dict(version=1, run_seed=seed, tier=tier, floor=True, config='plain',
                          hist=env_side(rng, False, 'hist'), orac=env_side(rng, False, 'orac'),
                          disk={}, tasks=tasks, schedule=sched))
    return plans


# ------------------------------------------------------------ tolerance floor

def tolerance_floor_plans(base_seed, tier='quick'):
    """End matching and ground contact are decided with a tolerance (1e-3 of
    the shortest segment).  Fixed worlds put a wire end at 0.5 .. 40
    tolerances from its partner / from the ground plane and take one object
    through frequencies five decades apart, so that any length that scales
    with the wavelength crosses the gap somewhere in the history: what is
    connected must not depend on where the object has been."""
    plans = []
    i = 0
    for where, env, tpls in (('junction', 'free', ['vee', 'bent3', 'tee_free']),
                             ('junction', 'ideal', ['inv_l', 'tee_gnd']),
                             ('ground', 'ideal', ['monopole', 'inv_l', 'monopole_ud'])):
        for fz in (0.5, 1.2, 3.0, 12.0, 40.0):
            seed = base_seed * 1000003 + 997000 + i
            i += 1
            rng = random.Random(seed)
            m = gen_model(rng, env=env, kinds=rng.choice([[], ['impedance'], ['skin_c']]),
                          template=tpls[i % len(tpls)], near_miss=(where, fz))
            base = min(max(150.0 / max(m.length, 1.0), 2.0), 900.0)
            pool = [float(repr(round(base * x, 6))) for x in (1.0, 0.1, 5e-3, 1e-3, 1e-4, 0.03)]
            if i % 2:
                pool.reverse()
            ops = [['COMPUTE'], ['OBS_NUM']]
            for k in (1, 2, 3, 4, 5, 0, 3):
                ops += [['SET_F', k], ['COMPUTE'], ['OBS_NUM']]
            ops += [['FAR', 0], ['OBS_REPORT', ['far-field']], ['OBS_CMDLINE']]
            t = dict(kind='api', builder='cli', argv=m.argv(), pool=pool, fars=[gen_far(rng)], nears=[],
                     ops=ops, template=m.template, env=m.env,
                     features=sorted(set(m.features + ['tolerance_floor'])), probes=[],
                     npulses=m.min_pulses() + 2 * len(m.geo))
            argv = ['-f', repr(pool[0])] + m.argv() + ['--output-cmdline', 'tol.txt']
            inc = float(repr(round(pool[1] - pool[0], 9)))
            cops = [['SWEEP', list(argv), inc, 2, 0], ['RUN', list(argv)]]
            c = dict(kind='cli', ops=[_copy_op(o) for o in cops], template=m.template, env=m.env,
                     features=sorted(set(m.features + ['tolerance_floor'])), probes=[],
                     npulses=m.min_pulses() + 2 * len(m.geo), pool=pool[:2])
            plans.append(dict(version=1, run_seed=seed, tier=tier, floor=True, config='plain',
                              hist=env_side(rng, False, 'hist'), orac=env_side(rng, False, 'orac'),
                              disk={}, tasks=[t, c], schedule=[0] * len(ops) + [1] * len(cops)))
    return plans


# --------------------------------------------------------------- regime floor

FREE_TEMPLATES = ['dipole', 'vee', 'tee_free', 'star', 'two_wires', 'tapered', 'arc', 'helix', 'loop', 'bent3',
                  'radii2', 'array', 'zigzag', 'mixed', 'array_tail', 'helix_fed', 'arc_fed', 'seg1_chain']
GND_TEMPLATES = ['monopole', 'monopole_ud', 'inv_l', 'tee_gnd', 'two_monopoles', 'gnd_star', 'gnd_fan']


def regime_floor_plans(base_seed, tier='quick'):
    """Every geometry template taken, on one object, from electrically tiny
    (1e-4 of the resonance: badly conditioned matrices, guards, fall-backs)
    to electrically large (8 times the resonance: thin-wire limits) and back
    to the resonance; and thickly insulated VHF-sized conductors whose
    equivalent radius is a visible fraction of the wavelength at the upper
    frequencies.  The random pools reach these regimes in about one model in
    eight; here every template does, in every run."""
    plans = []
    cyc = [[], ['impedance'], ['skin_c'], ['rlc'], ['insulation'], ['trap'], ['laplace'], ['skin_r']]
    cases = [('free', t, None) for t in FREE_TEMPLATES] + [('ideal', t, None) for t in GND_TEMPLATES] \
        + [('real2', 'monopole', None), ('real3', 'inv_l', None)] \
        + [('free', 'dipole', 0.5), ('free', 'vee', 1.0), ('ideal', 'monopole', 0.5), ('free', 'two_wires', 0.5)]
    # distributed loads on the whole antenna for the templates that contain
    # objects without a pulse of their own or several junctions
    cases += [('free', 'seg1_chain', -1), ('free', 'seg1_chain', -2), ('free', 'star', -1), ('ideal', 'gnd_star', -2),
              ('free', 'array_tail', -1), ('free', 'zigzag', -2)]
    for i, (env, tpl, length) in enumerate(cases):
        seed = base_seed * 1000003 + 998000 + i
        rng = random.Random(seed)
        kinds = ['insulation'] if length else cyc[i % len(cyc)]
        if length and length < 0:
            kinds = [['skin_c'], ['insulation']][-length - 1]
            length = None
            for k in range(40):
                rng = random.Random(seed * 43 + k)
                m = gen_model(rng, env=env, kinds=kinds, template=tpl, transforms=False)
                if 'skin_per_tag' not in m.features and 'insulation_per_tag' not in m.features:
                    break
        else:
            # the plain template: a per-tag transformation would open the loop
            m = gen_model(rng, env=env, kinds=kinds, template=tpl, length=length, transforms=False)
        base = min(max(150.0 / max(m.length, 1.0), 2.0), 900.0)
        mults = (1.0, 1e-4, 8.0, 1e-3, 0.02, 4.0) if not length else (1.0, 8.0, 0.5, 4.0, 2.0, 6.0)
        pool = [float(repr(round(base * x, 6))) for x in mults]
        ops = [['COMPUTE'], ['OBS_NUM']]
        for k in (1, 0, 2, 0, 3, 4, 5, 0):
            ops += [['SET_F', k], ['COMPUTE'], ['OBS_NUM']]
        ops += [['FAR', 0], ['OBS_REPORT', ['far-field']]]
        t = dict(kind='api', builder='cli', argv=m.argv(), pool=pool, fars=[gen_far(rng)], nears=[],
                 ops=ops, template=m.template, env=m.env,
                 features=sorted(set(m.features + ['regime_floor'])), probes=[],
                 npulses=m.min_pulses() + 2 * len(m.geo))
        argv = ['-f', repr(pool[1])] + m.argv() + ['--output-cmdline', 'reg.txt']
        cops = [['SWEEP', list(argv), float(repr(round(pool[0] - pool[1], 9))), 2, i % 4],
                ['SWEEP', ['-f', repr(pool[2])] + argv[2:], float(repr(round(pool[0] - pool[2], 9))), 2, 0]]
        c = dict(kind='cli', ops=[_copy_op(o) for o in cops], template=m.template, env=m.env,
                 features=sorted(set(m.features + ['regime_floor'])), probes=[],
                 npulses=m.min_pulses() + 2 * len(m.geo), pool=pool[:3])
        plans.append(dict(version=1, run_seed=seed, tier=tier, floor=True, config='plain',
                          hist=env_side(rng, False, 'hist'), orac=env_side(rng, False, 'orac'),
                          disk={}, tasks=[t, c], schedule=[0] * len(ops) + [1] * len(cops)))
    return plans


# ----------------------------------------------------------------- twin floor

def twin_floor_plans(base_seed, tier='quick'):
    """Field requests that differ from the previous one by 1e-3 .. 1e-12
    (relative) in one number, back to back on one object without a compute
    in between: 'unchanged within tolerance' short-cuts and keys that are
    rounded, truncated or hashed too coarsely only show between such twins."""
    import copy
    plans = []
    i = 0
    for d in (1e-3, 1e-5, 1e-7, 1e-9, 1e-12):
        for env in ('free', 'ideal', 'real2'):
            seed = base_seed * 1000003 + 999000 + i
            i += 1
            rng = random.Random(seed)
            m = gen_model(rng, env=env, kinds=rng.choice([[], ['impedance']]))
            pool, probes = gen_pool(rng, m, k=2)
            n0 = gen_near(rng, m)
            n1 = copy.deepcopy(n0)
            k = rng.randrange(3)
            w = rng.choice([0, 1])
            n1[w][k] = n1[w][k] * (1 + d)
            if i % 3 == 2:
                # ... or the same points-per-request moved to another axis
                n0[2] = rng.choice([[3, 1, 1], [2, 3, 1], [1, 4, 2]])
                n1 = copy.deepcopy(n0)
                n1[2] = n0[2][1:] + n0[2][:1]
            f0 = gen_far(rng)
            f0[0][0] = f0[0][0] or 10
            f0[1][1] = f0[1][1] or 30
            f1 = copy.deepcopy(f0)
            w = rng.choice([(0, 0), (0, 1), (1, 0), (1, 1)])
            f1[w[0]][w[1]] = (f1[w[0]][w[1]] or 10) * (1 + d)
            ops = [['COMPUTE'], ['NEAR', 0], ['OBS_NUM'], ['NEAR', 1], ['OBS_NUM'], ['OBS_REPORT', ['near-field']],
                   ['NEAR', 0], ['OBS_NUM'], ['FAR', 0], ['OBS_NUM'], ['FAR', 1], ['OBS_NUM'],
                   ['OBS_REPORT', ['far-field']], ['FAR', 0], ['OBS_NUM'], ['SET_F', 1], ['COMPUTE'],
                   ['NEAR', 1], ['FAR', 1], ['OBS_NUM'], ['NEAR', 0], ['FAR', 0], ['OBS_NUM']]
            t = dict(kind='api', builder='cli', argv=m.argv(), pool=pool[:2], fars=[f0, f1], nears=[n0, n1],
                     ops=ops, template=m.template, env=m.env,
                     features=sorted(set(m.features + ['twin_floor'])), probes=probes,
                     npulses=m.min_pulses() + 2 * len(m.geo), drop_results=(i % 2 == 0))
            plans.append(dict(version=1, run_seed=seed, tier=tier, floor=True, config='plain',
                              hist=env_side(rng, False, 'hist'), orac=env_side(rng, False, 'orac'),
                              disk={}, tasks=[t], schedule=[0] * len(ops)))
    return plans


# --------------------------------------------------------------- option floor

OPTION_TOGGLES = [['--mininec-version', '12'], ['--mininec-version', '13'], ['--mininec-version=9'],
                  ['--ff-power=100'], ['--ff-distance=1000'], ['--nf-power=50'], ['-T'],
                  ['--option', 'far-field-absolute'], ['--option', 'none'], ['--option', 'near-field'],
                  ['--boundary=circular'], ['--frequency-steps=1'], ['--frequency-increment=0']]


def option_floor_plans(base_seed, tier='quick'):
    """Two command lines that differ in exactly one optional option, run
    alternately in one interpreter with every output file requested: an
    option given on one command line must not be in force for the next one
    (module-level defaults, argparse namespaces, class attributes).  Also
    the project's own example frequencies as the *first* frequency of an
    object (299.8 MHz: wavelength exactly 1)."""
    plans = []
    # (the BASIC writer does not support mixtures of the two load families)
    kinds_cycle = [['rlc'], ['laplace'], ['trap'], ['rlc'], ['impedance'], ['trap'], ['laplace'], []]
    for i, tog in enumerate(OPTION_TOGGLES):
        seed = base_seed * 1000003 + 999500 + i
        rng = random.Random(seed)
        env = ['free', 'ideal', 'real2'][i % 3]
        m = gen_model(rng, env=env, kinds=kinds_cycle[i % len(kinds_cycle)])
        pool, probes = gen_pool(rng, m, k=2)
        a = ['-f', repr(pool[0])] + m.argv() + field_args(rng, m, force=['far-field', 'near-field']) \
            + ['--output-cmdline', 'o.txt', '--output-basic-input', 'b.in']
        if tog[0].startswith('--mininec-version') or tog[0] == '-T' or tog[0].startswith('--boundary'):
            a = [x for x in a if not x.startswith(tog[0].split('=')[0])]
        b = a + tog
        inc = float(repr(round(pool[1] - pool[0], 6))) or 0.1
        ops = [['RUN', b], ['RUN', a], ['RUN', b], ['SWEEP', a, inc, 2, i % 4], ['RUN', b], ['RUN', a]]
        t = dict(kind='cli', ops=[_copy_op(o) for o in ops], template=m.template, env=m.env,
                 features=sorted(set(m.features + ['option_floor'])), probes=probes,
                 npulses=m.min_pulses() + 2 * len(m.geo), pool=list(pool))
        plans.append(dict(version=1, run_seed=seed, tier=tier, floor=True, config='plain',
                          hist=env_side(rng, False, 'hist'), orac=env_side(rng, False, 'orac'),
                          disk={}, tasks=[t], schedule=[0] * len(ops)))
    # the project's example frequencies first on an object of matching size
    for j, f0 in enumerate([299.8, 299.8, 299.8, 299.8, 29.98, 149.9, 7, 14, 28.074, 450, 1.0, 100.0]):
        seed = base_seed * 1000003 + 999700 + j
        rng = random.Random(seed)
        L = min(max(round(150.0 / f0, 3), 0.3), 40.0)
        env = ['free', 'ideal'][j % 2]
        # templates with wires joined at like ends (reversed halves) included
        m = gen_model(rng, env=env, kinds=[[], ['skin_c'], ['insulation'], ['rlc']][j % 4], length=L,
                      template=(['vee', 'tee_free', 'star', 'dipole', 'bent3'] if env == 'free'
                                else ['tee_gnd', 'gnd_star', 'inv_l', 'monopole'])[(j // 2) % 4])
        pool = [f0, float(repr(round(f0 * 0.5, 6))), float(repr(round(f0 * 1.033, 6))), f0,
                float(repr(round(f0 + 10 if f0 > 100 else f0 * 1.2, 6)))]
        near = gen_near(rng, m)
        # every kind of request at the special frequency, each followed by more work
        ops = [['COMPUTE'], ['FAR', 0], ['OBS_NUM'], ['NEAR', 0], ['OBS_NUM'], ['COMPUTE'], ['OBS_NUM'],
               ['FAR', 0], ['NEAR', 0], ['OBS_NUM']]
        for k in (1, 2, 3, 4, 0):
            ops += [['SET_F', k], ['COMPUTE'], ['FAR', 0], ['OBS_NUM']]
        ops += [['NEAR', 0], ['OBS_REPORT', ['far-field', 'near-field']], ['OBS_MISC', 4], ['COMPUTE'], ['OBS_NUM']]
        t = dict(kind='api', builder='cli', argv=m.argv(), pool=pool, fars=[gen_far(rng)], nears=[near],
                 ops=ops, template=m.template, env=m.env,
                 features=sorted(set(m.features + ['project_frequency_first'])), probes=['project_frequency'],
                 npulses=m.min_pulses() + 2 * len(m.geo))
        argv = ['-f', repr(f0)] + m.argv() + field_args(rng, m, force=['far-field', 'near-field']) \
            + ['--output-cmdline', 'pf.txt']
        cops = [['SWEEP', list(argv), 10.0 if f0 > 100 else float(repr(round(f0 * 0.05, 6))), 3, j % 4]]
        c = dict(kind='cli', ops=[_copy_op(o) for o in cops], template=m.template, env=m.env,
                 features=sorted(set(m.features + ['project_frequency_first'])), probes=['project_frequency'],
                 npulses=m.min_pulses() + 2 * len(m.geo), pool=pool[:2])
        plans.append(dict(version=1, run_seed=seed, tier=tier, floor=True, config='plain',
                          hist=env_side(rng, False, 'hist'), orac=env_side(rng, False, 'orac'),
                          disk={}, tasks=[t, c], schedule=[0] * len(ops) + [1] * len(cops)))
    return plans


# ---------------------------------------------------------------- order floor

def order_floor_plans(base_seed, tier='quick'):
    """Models whose processing order is underdetermined by the input - several
    junctions, per-tag distributed loads, explicit and permuted tags, several
    media and sources - in *perturbed* worlds: history and oracle assign
    opposite hashes and identity numbers to the program's objects, the clock
    jumps, memory is poisoned.  The other floors run under plain conditions;
    the random worlds are perturbed in 70 % of the cases but meet such a
    model only now and then."""
    plans = []
    cases = []
    for tpl, env in (('star', 'free'), ('tee_free', 'free'), ('bent3', 'free'), ('zigzag', 'free'), ('loop', 'free'),
                     ('gnd_star', 'ideal'), ('tee_gnd', 'ideal'), ('inv_l', 'real2'), ('array_tail', 'free'),
                     ('mixed', 'free'), ('gnd_fan', 'ideal'), ('seg1_chain', 'free')):
        for want in ('skin_per_tag', 'insulation_per_tag'):
            cases.append((tpl, env, want))
    for i, (tpl, env, want) in enumerate(cases):
        seed = base_seed * 1000003 + 999800 + i
        m = None
        for k in range(40):
            rng = random.Random(seed * 41 + k)
            c = gen_model(rng, env=env, kinds=['skin_c' if want.startswith('skin') else 'insulation',
                                               rng.choice(['impedance', 'rlc', 'trap'])], template=tpl)
            if want in c.features:
                m = c
                break
        if m is None:
            m = c
        if i % 4 < 2:
            # the distributed load on ONE object only (the first or the last
            # defined): the junction pulses at its ends belong to the others
            opt = '--skin-effect-conductivity=' if want.startswith('skin') else '--insulation-load='
            tagged = [a for a in m.argv_load if a.startswith(opt) and a.count(',') >= (1 if want.startswith('skin') else 2)]
            if tagged:
                etags = [g['etag'] for g in m.geo]
                keep = tagged[0].rsplit(',', 1)[0] + ',%d' % (min(etags) if i % 8 < 4 else max(etags))
                m.argv_load = [a for a in m.argv_load if not a.startswith(opt)] + [keep]
        api = i % 2 == 0
        pool, probes = gen_pool(rng, m, k=2)
        if api:
            ops = [['COMPUTE'], ['OBS_NUM'], ['OBS_REPORT', []], ['OBS_CMDLINE'], ['SET_F', 1], ['COMPUTE'],
                   ['FAR', 0], ['OBS_NUM'], ['OBS_REPORT', ['far-field']], ['OBS_MISC', 6], ['OBS_CMDLINE']]
            t = dict(kind='api', builder='cli', argv=m.argv(), pool=pool[:2], fars=[gen_far(rng)], nears=[],
                     ops=ops, template=m.template, env=m.env, features=sorted(set(m.features + ['order_floor'])),
                     probes=probes, npulses=m.min_pulses() + 2 * len(m.geo), drop_results=bool(i % 4))
        else:
            argv = ['-f', repr(pool[0])] + m.argv() + field_args(rng, m, force=['far-field']) \
                + ['--output-cmdline', 'ord.txt']
            inc = float(repr(round(pool[1] - pool[0], 6))) or 0.1
            ops = [['RUN', argv], ['SWEEP', argv, inc, 2, i % 4], ['RUN', argv]]
            t = dict(kind='cli', ops=[_copy_op(o) for o in ops], template=m.template, env=m.env,
                     features=sorted(set(m.features + ['order_floor'])), probes=probes,
                     npulses=m.min_pulses() + 2 * len(m.geo), pool=list(pool))
        plans.append(dict(version=1, run_seed=seed, tier=tier, floor=True, config='perturbed',
                          hist=env_side(rng, True, 'hist'), orac=env_side(rng, True, 'orac'),
                          disk={}, tasks=[t], schedule=[0] * len(t['ops'])))
    return plans


# -------------------------------------------------------------- minimal floor

def minimal_model(rng, kind, env):
    """The smallest valid models: one or two current pulses.  Views and
    contiguity short-cuts of numpy, squeezed dimensions and 'no copy needed'
    paths behave differently for arrays of length one."""
    m = Model()
    r = rng.choice([0.001, 0.002])
    L = rng.choice([10.0, 20.0])
    h = 0.0 if env == 'free' else rng.choice([8.0, 10.0])
    a = []

    def w(nseg, p1, p2):
        o, v = _wire(nseg, p1, p2, r)
        a.extend([o, v])
        m.geo.append(dict(kind='wire', nseg=nseg, r=r, tag=None, etag=len(m.geo) + 1,
                          p1=tuple(float(x) for x in p1), p2=tuple(float(x) for x in p2)))
        m.radii.append(r)
    if kind == 'dipole2':           # 2 segments, 1 pulse
        w(2, (-L / 2, 0, h), (L / 2, 0, h))
    elif kind == 'dipole3':         # 3 segments, 2 pulses
        w(3, (-L / 2, 0, h), (L / 2, 0, h))
    elif kind == 'joined11':        # two 1-segment wires, 1 junction pulse
        w(1, (-L / 2, 0, h), (0, 0, h))
        w(1, (0, 0, h), (L / 2, 0, h + 1.0))
    elif kind == 'monopole1':       # 1 segment on the ground plane, 1 pulse
        w(1, (0, 0, 0), (0, 0, L / 4))
    else:                           # 'monopole2': 2 pulses
        w(2, (0, 0, 0), (0, 0, L / 4))
    m.template = 'minimal_' + kind
    m.length = L
    m.argv_geo = a
    m.exact = False
    gen_env(rng, m, env)
    m.argv_src = ['--excitation-pulse=1']
    m.argv_load = rng.choice([[], ['--load=50+10j', '--attach-load=1,1'], ['--skin-effect-conductivity=1e6'],
                              ['--rlc-load=5,1e-6,1e-10', '--attach-load=1,1']])
    m.features.append('minimal_model')
    return m


def minimal_floor_plans(base_seed, tier='quick'):
    plans = []
    cases = [('dipole2', 'free'), ('dipole2', 'ideal'), ('dipole2', 'real2'), ('dipole3', 'free'), ('joined11', 'free'),
             ('joined11', 'ideal'), ('monopole1', 'ideal'), ('monopole1', 'real1'), ('monopole2', 'ideal'),
             ('dipole3', 'ideal')]
    for i, (kind, env) in enumerate(cases):
        seed = base_seed * 1000003 + 999900 + i
        rng = random.Random(seed)
        m = minimal_model(rng, kind, env)
        base = 150.0 / m.length
        pool = [float(repr(round(base * x, 4))) for x in (1.0, 1.02, 0.5, 2.0)]
        near = gen_near(rng, m)
        ops = [['COMPUTE'], ['FAR', 0], ['OBS_NUM'], ['FAR', 0], ['OBS_NUM'], ['NEAR', 0], ['OBS_NUM'], ['NEAR', 0],
               ['FAR', 1], ['OBS_NUM'], ['OBS_REPORT', ['far-field', 'near-field']], ['COMPUTE'], ['OBS_NUM']]
        for k in (1, 2, 3, 0):
            ops += [['SET_F', k], ['COMPUTE'], ['FAR', 0], ['NEAR', 0], ['OBS_NUM']]
        ops += [['OBS_REPORT', ['far-field', 'near-field', 'far-field-absolute']], ['OBS_CMDLINE'], ['OBS_MISC', 2]]
        t = dict(kind='api', builder='cli', argv=m.argv(), pool=pool, fars=[gen_far(rng), gen_far(rng)], nears=[near],
                 ops=ops, template=m.template, env=m.env, features=sorted(set(m.features)), probes=[],
                 npulses=4, drop_results=bool(i % 2))
        argv = ['-f', repr(pool[0])] + m.argv() + field_args(rng, m, force=['far-field', 'near-field']) \
            + ['--output-cmdline', 'min.txt']
        cops = [['SWEEP', list(argv), float(repr(round(pool[1] - pool[0], 6))), 3, i % 4], ['RUN', list(argv)],
                ['RUN', list(argv)]]
        c = dict(kind='cli', ops=[_copy_op(o) for o in cops], template=m.template, env=m.env,
                 features=sorted(set(m.features)), probes=[], npulses=4, pool=pool[:2])
        plans.append(dict(version=1, run_seed=seed, tier=tier, floor=True, config='plain',
                          hist=env_side(rng, False, 'hist'), orac=env_side(rng, False, 'orac'),
                          disk={}, tasks=[t, c], schedule=[0] * len(ops) + [1] * len(cops)))
    return plans


# ------------------------------------------------- mixed and fine-sweep floor

def mixed_floor_plans(base_seed, tier='quick'):
    """(a) A printing main() run with a non-default selection of report
    sections, then reports with default options on another, live model in
    the same interpreter (and the other way round).  (b) Sweeps of 4..8 steps
    with increments that are not binary fractions (0.1, 0.3, 0.7), with the
    default far-field grid, which contains directions where one polarisation
    cancels to rounding noise: step k must be computed at f0 + k * inc, and
    the noise-level numbers of the report show the last bit of it."""
    plans = []
    for i, sel in enumerate([['none'], ['near-field'], ['far-field-absolute'], ['far-field', 'near-field'],
                             ['far-field-absolute', 'near-field'], ['none']]):
        seed = base_seed * 1000003 + 999950 + i
        rng = random.Random(seed)
        env = ['free', 'ideal', 'real2'][i % 3]
        m1 = gen_model(rng, env=env, kinds=[])
        m2 = gen_model(rng, env=['ideal', 'free', 'free'][i % 3], kinds=rng.choice([[], ['impedance']]))
        pool, probes = gen_pool(rng, m2, k=2)
        p1, _ = gen_pool(rng, m1, k=2)
        argv = ['-f', repr(p1[0])] + m1.argv() + field_args(rng, m1, force=sel) + ['--output-cmdline', 'mix.txt']
        cops = [['RUN', argv], ['RUN', argv]]
        aops = [['COMPUTE'], ['FAR', 0], ['OBS_MISC', i], ['OBS_REPORT', ['far-field']], ['SET_F', 1], ['COMPUTE'],
                ['FAR', 0], ['OBS_MISC', i + 1]]
        c = dict(kind='cli', ops=[_copy_op(o) for o in cops], template=m1.template, env=m1.env,
                 features=sorted(set(m1.features + ['mixed_floor'])), probes=[], npulses=m1.min_pulses() + 2 * len(m1.geo),
                 pool=list(p1))
        t = dict(kind='api', builder='cli', argv=m2.argv(), pool=pool[:2], fars=[gen_far(rng)], nears=[],
                 ops=aops, template=m2.template, env=m2.env, features=sorted(set(m2.features + ['mixed_floor'])),
                 probes=probes, npulses=m2.min_pulses() + 2 * len(m2.geo))
        if i % 2 == 0:
            sched = [0, 1, 1, 1, 1, 0, 1, 1, 1, 1]          # run first, then the live model (and once more in between)
        else:
            sched = [1, 1, 1, 0, 1, 0, 1, 1, 1, 1]          # live model first, the run in the middle
        plans.append(dict(version=1, run_seed=seed, tier=tier, floor=True, config='plain',
                          hist=env_side(rng, False, 'hist'), orac=env_side(rng, False, 'orac'),
                          disk={}, tasks=[c, t], schedule=sched))
    sweeps = [(7.1, 0.1, 6), (14.05, 0.3, 5), (28.3, 0.7, 4), (7.3, 0.1, 8), (21.1, 0.3, 6), (3.7, 0.1, 7),
              (10.1, 0.7, 5), (50.3, 0.1, 6)]
    for j, (f0, inc, steps) in enumerate(sweeps):
        seed = base_seed * 1000003 + 999970 + j
        rng = random.Random(seed)
        env = ['free', 'ideal'][j % 2]
        L = round(150.0 / f0, 3)
        m = gen_model(rng, env=env, kinds=[[], ['impedance'], ['skin_c']][j % 3], length=L, transforms=False,
                      template=(['dipole', 'vee', 'two_wires', 'bent3'] if env == 'free'
                                else ['monopole', 'inv_l', 'tee_gnd', 'two_monopoles'])[(j // 2) % 4])
        argv = ['-f', repr(f0)] + m.argv() + (['--option', 'far-field', '--option', 'far-field-absolute',
                                                '--ff-power=100', '--ff-distance=1000'] if j % 2 else [])
        cops = [['SWEEP', list(argv), inc, steps, j % 4], ['SWEEP', list(argv), -inc, 3, (j + 1) % 4]]
        c = dict(kind='cli', ops=[_copy_op(o) for o in cops], template=m.template, env=m.env,
                 features=sorted(set(m.features + ['fine_sweep_floor'])), probes=[],
                 npulses=m.min_pulses() + 2 * len(m.geo), pool=[f0])
        plans.append(dict(version=1, run_seed=seed, tier=tier, floor=True, config='plain',
                          hist=env_side(rng, False, 'hist'), orac=env_side(rng, False, 'orac'),
                          disk={}, tasks=[c], schedule=[0] * len(cops)))
    return plans


# -------------------------------------------------------------- lifetime floor

def lifetime_floor_plans(base_seed, tier='quick'):
    """Two or three constructor-built models that share caller-owned objects
    (one list of Medium objects - a single medium, a layered ground, the
    exported ideal ground - and argument arrays).  One of them is used and
    then dropped, the cyclic collector runs, and the survivors are observed
    again: when a model ends is the caller's business and must not show in
    another model's results or texts."""
    plans = []
    for i, ground in enumerate(['shared_real2', 'shared_real2', 'shared_real', 'shared_ideal', 'shared_real2',
                                'shared_ideal']):
        seed = base_seed * 1000003 + 999990 + i
        rng = random.Random(seed)
        tasks = []
        for k in range(2 + (i % 2)):
            t = gen_direct_task(rng, ground=ground, maxops=6)
            t['direct']['rejects'] = []
            first = [['COMPUTE'], ['FAR', 0], ['OBS_NUM'], ['OBS_MISC', k], ['OBS_CMDLINE']]
            if k == 0:
                t['ops'] = first + [['DROP']]
            else:
                t['ops'] = first + [['OBS_MISC', k + 1], ['OBS_CMDLINE'], ['OBS_REPORT', ['far-field']], ['SET_F', 1],
                                    ['COMPUTE'], ['FAR', 0], ['OBS_NUM'], ['OBS_MISC', k + 2], ['OBS_CMDLINE'],
                                    ['OBS_BASIC', 12]]
            t['nears'] = []
            t['features'] = sorted(set(t['features'] + ['lifetime_floor']))
            tasks.append(t)
        n0 = len(tasks[0]['ops'])
        sched = []
        # everybody does the first five operations, then the first model is dropped, then the others go on
        for step in range(5):
            for k in range(len(tasks)):
                sched.append(k)
        sched.append(0)
        for k in range(1, len(tasks)):
            sched += [k] * (len(tasks[k]['ops']) - 5)
        plans.append(dict(version=1, run_seed=seed, tier=tier, floor=True, config='plain',
                          hist=env_side(rng, False, 'hist'), orac=env_side(rng, False, 'orac'),
                          disk={}, tasks=tasks, schedule=sched))
    # field requests issued from a worker thread (awaited), frequency set in the main thread
    for j in range(6):
        seed = base_seed * 1000003 + 999996 + j
        rng = random.Random(seed)
        env = ['free', 'ideal', 'real2'][j % 3]
        m = gen_model(rng, env=env, kinds=[[], ['skin_c'], ['impedance']][j % 3])
        pool, probes = gen_pool(rng, m, k=3)
        ops = [['COMPUTE'], ['FAR', 0], ['NEAR', 0], ['OBS_NUM'], ['SET_F', 1], ['COMPUTE'], ['FAR', 0], ['NEAR', 0],
               ['OBS_NUM'], ['OBS_REPORT', ['far-field', 'near-field']], ['SET_F', 2], ['COMPUTE'], ['NEAR', 0],
               ['FAR', 1], ['OBS_NUM'], ['SET_F', 0], ['COMPUTE'], ['FAR', 0], ['OBS_NUM']]
        t = dict(kind='api', builder='cli', argv=m.argv(), pool=pool[:3], fars=[gen_far(rng), gen_far(rng)],
                 nears=[gen_near(rng, m)], ops=ops, template=m.template, env=m.env,
                 features=sorted(set(m.features + ['thread_floor'])), probes=probes,
                 npulses=m.min_pulses() + 2 * len(m.geo), thread_fields=True, drop_results=bool(j % 2))
        plans.append(dict(version=1, run_seed=seed, tier=tier, floor=True, config='plain',
                          hist=env_side(rng, False, 'hist'), orac=env_side(rng, False, 'orac'),
                          disk={}, tasks=[t], schedule=[0] * len(ops)))
    return plans
