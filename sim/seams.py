"""Seams: everything pymininec can observe besides its arguments.

Nothing in /repo is edited.  All seams are module or class attributes that
are replaced after import:

  clock      mininec.mininec.time (module object), mininec.mininec.datetime
  hash       __hash__ on Geobj, _Load, Medium, Pulse, Segment, Excitation
  disk       mininec.mininec.open (module global shadowing the builtin)
  streams    sys.stdout / sys.stderr / explicit f_err
  allocator  junk objects held, poisoned numpy blocks freed

Everything here is a pure function of the plan handed in; nothing reads a
real clock or draws from an unseeded PRNG.
"""
import io
import os
import sys
import random
import datetime as _dt

import numpy as np

FAULTS = {}          # fault kind -> number of times it actually fired


def fired(kind, n=1):
    FAULTS[kind] = FAULTS.get(kind, 0) + n


def reset_faults():
    FAULTS.clear()


# --------------------------------------------------------------------- clock

class SimClock:
    """Discrete simulated wall clock.

    Every read returns the current value and then advances it by a seeded
    amount; with small probabilities the advance is a large forward jump, a
    backward step (NTP correction) or zero (two identical readings).
    """

    def __init__(self, spec):
        self.now = float(spec.get('epoch', 1.7e9))
        self.rng = random.Random(spec.get('seed', 0))
        self.p_fwd = spec.get('p_fwd', 0.0)
        self.p_back = spec.get('p_back', 0.0)
        self.p_stall = spec.get('p_stall', 0.0)
        self.start = self.now
        self.reads = 0

    def time(self):
        t = self.now
        self.reads += 1
        r = self.rng.random()
        if r < self.p_fwd:
            self.now += self.rng.uniform(3600.0, 86400.0 * 400)
            fired('clock_jump_fwd')
        elif r < self.p_fwd + self.p_back:
            self.now -= self.rng.uniform(0.5, 7200.0)
            fired('clock_step_back')
        elif r < self.p_fwd + self.p_back + self.p_stall:
            fired('clock_stall')
        else:
            self.now += self.rng.uniform(1e-4, 3.0)
        return t

    # the rest of the `time` module surface the repo might touch
    def time_ns(self):
        return int(self.time() * 1e9)

    def gmtime(self, secs=None):
        import time as _t
        return _REAL['gmtime'](self.time() if secs is None else secs)

    def localtime(self, secs=None):
        # the simulated machine runs on UTC
        return _REAL['gmtime'](self.time() if secs is None else secs)

    def strftime(self, fmt, t=None):
        return _REAL['strftime'](fmt, self.gmtime() if t is None else t)

    def asctime(self, t=None):
        return _REAL['asctime'](self.gmtime() if t is None else t)

    def ctime(self, secs=None):
        return _REAL['asctime'](self.gmtime(secs))

    def process_time(self):
        return self.time() - self.start

    def perf_counter(self):
        return self.time()

    def monotonic(self):
        return self.time()

    def sleep(self, s):
        self.now += max(0.0, s)

    @property
    def elapsed(self):
        return abs(self.now - self.start)


import time as _time_mod
_REAL = {k: getattr(_time_mod, k) for k in ('gmtime', 'strftime', 'asctime', 'time')}


PROC = {}       # simulated /proc files of this process


def patch_process_clock(clock, host='simhost', pid=None, cpus=None, mem_pages=None, numeric_locale=None):
    """Inside a simulated child process every clock a program could read is
    the simulated one: the `time` module functions and datetime.now()/today()
    are replaced process-wide (the harness itself does not read clocks in
    these children), and the identity of the machine/process is seeded."""
    import os
    import socket
    import platform
    import datetime as dtm
    for name in ('time', 'time_ns', 'gmtime', 'localtime', 'strftime', 'asctime', 'ctime',
                 'perf_counter', 'monotonic', 'process_time'):
        setattr(_time_mod, name, getattr(clock, name))

    class SimDateTime(dtm.datetime):
        @classmethod
        def now(cls, tz=None):
            return cls.fromtimestamp(clock.time(), dtm.timezone.utc).replace(tzinfo=tz)

        @classmethod
        def utcnow(cls):
            return cls.fromtimestamp(clock.time(), dtm.timezone.utc).replace(tzinfo=None)

        @classmethod
        def today(cls):
            return cls.now()

    class SimDate(dtm.date):
        @classmethod
        def today(cls):
            d = SimDateTime.now()
            return cls(d.year, d.month, d.day)

    dtm.datetime = SimDateTime
    dtm.date = SimDate
    socket.gethostname = lambda: host
    platform.node = lambda: host
    if numeric_locale:
        # only C locales are installed in the sandbox: simulate the user's
        # locale at the level of the `locale` module (setlocale accepts it,
        # localeconv answers for it; format_string/str/atof build on that)
        import locale
        conv = dict(locale.localeconv())
        if numeric_locale.startswith(('de', 'fr', 'tr')):
            conv.update(decimal_point=',', thousands_sep='.', grouping=[3, 3, 0])
        current = {'v': 'C'}

        def sim_setlocale(category, value=None):
            if value is None:
                return current['v']
            current['v'] = numeric_locale if value == '' else value
            return current['v']

        def sim_localeconv():
            return dict(conv) if current['v'] not in ('C', 'POSIX', 'C.UTF-8', 'C.utf8') else dict(locale_c)
        locale_c = dict(locale.localeconv())
        locale.setlocale = sim_setlocale
        locale.localeconv = sim_localeconv
        locale.getlocale = lambda category=None: (current['v'].split('.')[0], 'UTF-8')
        fired('locale_simulated')
    if mem_pages:
        # how much memory the machine has free right now is a property of
        # the moment; programs ask through os.sysconf, resource or /proc
        real_sysconf = os.sysconf

        def sim_sysconf(name):
            if name in ('SC_AVPHYS_PAGES', os.sysconf_names.get('SC_AVPHYS_PAGES')):
                return mem_pages
            if name in ('SC_PHYS_PAGES', os.sysconf_names.get('SC_PHYS_PAGES')):
                return mem_pages * 2
            return real_sysconf(name)
        os.sysconf = sim_sysconf
        try:
            import resource
            real_getrlimit = resource.getrlimit

            def sim_getrlimit(which):
                if which == resource.RLIMIT_AS:
                    return (mem_pages * 4096 * 3, resource.RLIM_INFINITY)
                return real_getrlimit(which)
            resource.getrlimit = sim_getrlimit
        except ImportError:
            pass
        PROC['/proc/meminfo'] = ('MemTotal: %d kB\nMemFree: %d kB\nMemAvailable: %d kB\n'
                                 % (mem_pages * 8, mem_pages * 4, mem_pages * 4))
        PROC['/proc/self/statm'] = '%d %d 2000 700 0 %d 0\n' % (mem_pages // 3, mem_pages // 8, mem_pages // 9)
        fired('memory_situation_seeded')
    if cpus:
        # how many CPUs the process may use is a property of the machine /
        # container / taskset the user happens to be in
        import multiprocessing
        os.sched_getaffinity = lambda pid=0: set(range(cpus))
        os.cpu_count = lambda: cpus
        if hasattr(os, 'process_cpu_count'):
            os.process_cpu_count = lambda: cpus
        multiprocessing.cpu_count = lambda: cpus
        fired('cpu_count_seeded')
    if pid is not None:
        os.getpid = lambda: pid
        os.getppid = lambda: pid - 1
    fired('process_identity')


class _FakeDatetime:
    """Stands in for the `datetime` class imported by mininec.mininec."""
    clock = None

    @classmethod
    def now(cls, tz=None):
        t = cls.clock.time()
        return _dt.datetime.fromtimestamp(t, _dt.timezone.utc)


# ---------------------------------------------------------------------- hash

class HashOracle:
    """Decides the hash of every pymininec object.

    CPython iterates a set slot by slot and the slot of an int-hashed object
    is `hash & mask`.  Handing out small creation-order integers (`fwd`) or
    their complement (`rev`) therefore *chooses* the iteration order of every
    set of pymininec objects; `perm` scrambles with a seeded permutation.
    History and oracle get opposite modes, so an output that depends on set
    iteration order differs with certainty.
    """
    BIG = (1 << 20) - 1

    def __init__(self, spec):
        self.mode = spec.get('mode', 'fwd')
        self.rng = random.Random(spec.get('seed', 0))
        self.count = {}
        self.perm = None
        if self.mode == 'perm':
            p = list(range(64))
            self.rng.shuffle(p)
            self.perm = p

    def assign(self, obj):
        cls = type(obj).__mro__[-2].__name__   # root class below object
        i = self.count.get(cls, 0)
        self.count[cls] = i + 1
        if self.mode == 'fwd':
            return i
        if self.mode == 'rev':
            return self.BIG - i
        return self.perm[i % 64] + 64 * (i // 64)


_ORACLE = [None]


def _sim_hash(self):
    try:
        return self.__dict__['_verif_hash']
    except KeyError:
        o = _ORACLE[0]
        if o is None:
            h = id(self) >> 4
        else:
            h = o.assign(self)
            fired('hash_assigned')
        self.__dict__['_verif_hash'] = h
        return h


def _sim_id(obj):
    """Stands in for the builtin `id` inside the mininec modules (a module
    global shadows the builtin).  For pymininec objects the identity number
    follows the hash oracle, so that anything ordered or keyed by id() gets
    opposite orders in history and oracle; other objects keep their real id."""
    d = getattr(obj, '__dict__', None)
    if d is not None and type(obj).__module__.startswith('mininec'):
        fired('id_assigned')
        return (_sim_hash(obj) << 4) + 0x7f0000000000
    # any other object (numpy arrays, tuples, bound methods ...): the real
    # address in the history, its complement in the oracle - injective, so
    # identity look-ups keep working, but every order by id() is reversed
    o = _ORACLE[0]
    if o is not None and o.mode == 'rev':
        return (1 << 62) - id(obj)
    return id(obj)


# ---------------------------------------------------------------------- disk

_REAL_OPEN = open


class DiskFault(OSError):
    pass


class _SimFile(io.StringIO):
    def __init__(self, disk, path, initial, fail_after):
        super().__init__()
        if initial:
            super().write(initial)
        self._disk = disk
        self._path = path
        self._fail_after = fail_after
        self._written = 0

    def _write(self, s):
        if self._fail_after is not None:
            room = self._fail_after - self._written
            if len(s) > room:
                super().write(s[:max(room, 0)])
                self._written += max(room, 0)
                self._disk.files[self._path] = self.getvalue()
                fired('torn_write')
                raise DiskFault(28, 'simulated: no space left on device')
        self._written += len(s)
        return super().write(s)

    def write(self, s):                                   # noqa: F811
        try:
            return self._write(s)
        finally:
            if self._fail_after is not None:
                self._disk.sync(self._path, self.getvalue())

    def close(self):
        if not self.closed:
            self._disk.files[self._path] = self.getvalue()
            self._disk.sync(self._path)
        super().close()


class SimDisk:
    """The files of one simulated machine.  The program's text files (opened
    through the module-level `open`) are kept here, path -> text, with fault
    injection; they are also written through to a real private directory
    (`root`, the working directory of this side), so that everything else
    that can look at a disk - os.path.exists, os.stat, pathlib, numpy's own
    file functions, binary files - sees the same state.  The private
    directories (working directory, temporary directory, home) are the
    durable state: they survive invocations and simulated restarts on the
    history side and are empty for every oracle evaluation."""

    def __init__(self, files=None, root=None):
        self.files = dict(files or {})
        self.torn = {}        # path -> number of characters that fit
        self.opens = []
        self.root = root
        for p in self.files:
            self.sync(p)

    def real(self, path):
        if self.root is None:
            return None
        return path if os.path.isabs(path) else os.path.join(self.root, path)

    def sync(self, path, text=None):
        """Write the simulated content through to the private directory."""
        rp = self.real(path)
        if rp is None:
            return
        try:
            with _REAL_OPEN(rp, 'w') as f:
                f.write(self.files.get(path, '') if text is None else text)
        except OSError:
            pass

    def open(self, path, mode='r', *a, **kw):
        path = str(path)
        self.opens.append((path, mode))
        if 'b' in mode or '+' in mode:
            # not one of the program's text outputs: the real private disk
            if self.root is None:
                raise ValueError('simulated disk is text only')
            fired('real_disk_passthrough')
            return _REAL_OPEN(path, mode, *a, **kw)
        if mode.startswith('r'):
            if path in PROC:
                return io.StringIO(PROC[path])
            if path not in self.files:
                if path.startswith(('/proc/', '/sys/', '/etc/', '/usr/', '/dev/')):
                    # the machine around the program, not the program's files
                    return _REAL_OPEN(path, mode, *a, **kw)
                rp = self.real(path)
                if rp is not None and os.path.exists(rp):
                    fired('real_disk_passthrough')
                    return _REAL_OPEN(rp, mode, *a, **kw)
                raise FileNotFoundError(2, 'No such file or directory', path)
            return io.StringIO(self.files[path])
        initial = ''
        if mode.startswith('a'):
            initial = self.files.get(path, '')
        if mode.startswith('x') and path in self.files:
            raise FileExistsError(17, 'File exists', path)
        if path in self.files and mode.startswith('w'):
            fired('stale_file')
        rp = self.real(path)
        if rp is not None:
            # errors of the real directory (missing parent, a directory of
            # that name) surface as they would for the program
            _REAL_OPEN(rp, 'a' if mode.startswith('a') else 'w').close()
        self.files[path] = initial      # 'w' truncates at open time
        fail_after = self.torn.pop(path, None)
        return _SimFile(self, path, initial, fail_after)


# ----------------------------------------------------------------- allocator

_JUNK = []


def hold_junk(seed, count):
    """Allocate and keep `count` objects of the size classes pymininec uses,
    so object addresses (and everything derived from id()) differ between
    history and oracle."""
    if not count:
        return
    rng = random.Random(seed)
    for _ in range(count):
        k = rng.randrange(4)
        if k == 0:
            _JUNK.append(object())
        elif k == 1:
            _JUNK.append([None] * rng.randrange(1, 40))
        elif k == 2:
            _JUNK.append({'a': rng.random()})
        else:
            _JUNK.append(np.empty(rng.randrange(1, 200)))
    fired('alloc_junk')


def poison(sizes, value):
    """Allocate, fill and free numpy blocks of the given byte sizes, so the
    next np.empty of the same size is handed memory that carries `value`.
    The history uses NaN, the oracle 1e300: an accumulator that is not fully
    initialised differs between the two sides."""
    blocks = []
    for nbytes in sizes:
        n = max(1, nbytes // 8)
        a = np.empty(n, dtype=np.float64)
        a.fill(value)
        blocks.append(a)
    del blocks
    fired('alloc_poison')


def poison_sizes(npulses, grids=()):
    """Byte sizes of the arrays a model with `npulses` pulses allocates."""
    n = max(1, npulses)
    s = set()
    for k in (n, 2 * n, 3 * n, 6 * n, n * n, 2 * n * n, 3 * n * n, 3, 9, 18):
        s.add(8 * k)
        s.add(16 * k)
    for g in grids:
        for k in (g, 2 * g, 3 * g, 3 * g * n, 6 * g * n):
            s.add(8 * k)
            s.add(16 * k)
    return sorted(s)


# ------------------------------------------------------------------- install

HASHED = ('Geobj', '_Load', 'Medium', 'Excitation')
HASHED_EXTRA = (('mininec.pulse', 'Pulse'), ('mininec.segment', 'Segment'))


class Seams:
    """Installs all seams on the already imported mininec modules."""

    def __init__(self):
        import mininec.mininec as mm
        self.mm = mm
        self.real_time = mm.time
        self.real_datetime = mm.datetime
        self.clock = None
        self.disk = None
        self.installed = False

    def install(self, clock_spec=None, hash_spec=None, disk=None):
        mm = self.mm
        self.clock = SimClock(clock_spec or {})
        _FakeDatetime.clock = self.clock
        mm.time = self.clock
        mm.datetime = _FakeDatetime
        self.disk = disk if disk is not None else SimDisk()
        mm.open = self.disk.open
        _ORACLE[0] = HashOracle(hash_spec or {})
        for name in HASHED:
            cls = getattr(mm, name)
            cls.__hash__ = _sim_hash
        import importlib
        for modname in ('mininec.mininec', 'mininec.pulse', 'mininec.segment', 'mininec.taper', 'mininec.util'):
            importlib.import_module(modname).id = _sim_id
        for modname, name in HASHED_EXTRA:
            cls = getattr(importlib.import_module(modname), name)
            if getattr(cls, '__eq__', object.__eq__) is object.__eq__:
                cls.__hash__ = _sim_hash
        self.installed = True
        return self

    def set_hash(self, hash_spec):
        _ORACLE[0] = HashOracle(hash_spec or {})


class _Tap:
    """ONE replacement of sys.stdout / sys.stderr for the whole life of a
    simulated process, sliced per invocation.  It is installed once and never
    re-installed: if the program re-binds sys.stdout and forgets to put it
    back, later reports really are missing from stdout, as they would be in a
    user's interpreter."""

    def __init__(self):
        self.out = io.StringIO()
        self.err = io.StringIO()
        self.installed = False

    def install(self):
        if not self.installed:
            sys.stdout, sys.stderr = self.out, self.err
            self.installed = True


_TAP = _Tap()


# how the caller of main() / of the report writers collects what they print:
# 'tap' - one stream object for the life of the process (a shell, a log file);
# 'redirect' - a new stream object per invocation, put back afterwards
# (contextlib.redirect_stdout, pytest's capsys, a notebook cell, a GUI)
CAPTURE_STYLE = ['tap']


class Capture:
    """What one invocation printed: the slice of the process-wide tap it
    produced, plus - in 'redirect' style - what it wrote to the stream
    objects that were sys.stdout / sys.stderr for this invocation only.
    Output sent to a stream object of an earlier invocation is lost, as it
    is for such a caller."""

    def __enter__(self):
        _TAP.install()
        self._o = len(_TAP.out.getvalue())
        self._e = len(_TAP.err.getvalue())
        self.out = self.err = None
        self._own = None
        if CAPTURE_STYLE[0] == 'redirect':
            self._own = (io.StringIO(), io.StringIO(), sys.stdout, sys.stderr)
            sys.stdout, sys.stderr = self._own[0], self._own[1]
            fired('capture_per_invocation')
        return self

    def __exit__(self, *exc):
        o = _TAP.out.getvalue()[self._o:]
        e = _TAP.err.getvalue()[self._e:]
        if self._own is not None:
            o += self._own[0].getvalue()
            e += self._own[1].getvalue()
            sys.stdout, sys.stderr = self._own[2], self._own[3]     # as redirect_stdout does
        elif sys.stdout is not _TAP.out or sys.stderr is not _TAP.err:
            fired('program_rebound_std_stream')
        self.out = io.StringIO(o)
        self.err = io.StringIO(e)
        return False
